#!/usr/bin/env python3
"""Writes MANIFEST.json from the tables below (kept in one place so it stays schema-valid)."""
import json, subprocess

CLAIMED = {
    "C01": ("Totality of the value-level kernels: every operator entry point on every ordered pair of scalar kinds, every scalar built-in/constructor reached directly, and the VM jump check return a value or an error value for ALL payloads (no panic, overflow trap, out-of-bounds, unwrap). Source text -> tokenizer/parser/compiler, the VM loop, macros, program references and stack exhaustion are outside (DESIGN 3/C01).", "3/C01"),
    "C03": ("+ - * and unary - on int/uint/double/bool operands are compared with a mathematical oracle for ALL 64-bit payloads (one UNSAT proof per operator x kind pair); / and %: error predicate full width, quotient/remainder exactness for |a|,|b| < 2^15 plus a boundary set; every non-numeric pairing must be an error.", "3/C03"),
    "C04": ("Complement, symmetry, reflexivity, trichotomy, <=/>= unions, mathematical int/uint order, nearest-double comparison, 'unrelated kinds fail', transitivity on triples - for all payloads of scalars, strings/bytes <= 2 bytes, durations, timestamps. sort/min/max are outside.", "3/C04"),
    "C05": ("Value-level clauses only: one truthiness table across !, ||, &&, bool(), is_truthy and the absorption rules of ||/&& for every ordered pair of kinds, all payloads. Laziness, ?:, match and JmpCond live in the compiler/VM and are outside.", "3/C05"),
    "C06": ("String/bytes clauses only: concatenation preserves every byte in order, size is the UTF-8 byte count, `in`/index on scalar containers fail. Lists and maps are outside.", "3/C06"),
    "C10": ("Last sentence only: the VM's jump check accepts exactly the targets inside the block or at its end, for all (pc, dist, len). Well-formedness of compiler output is outside.", "3/C10"),
    "C12": ("JSON clause, scalar part only: serde_json numbers (all i64, u64, f64), bools, null, short strings convert to the same CelValue as direct binding, never panicking. Name resolution, program references and the depth bound are outside.", "3/C12"),
    "C14": ("Scalar conversions through construct_type for all payloads: int/uint/double/bool/dyn/type, range errors instead of wrapped values, truncation toward zero with saturation, type(T(x)) == T, bytes<->string on <= 2 bytes, arity errors. String<->number round trips and f-strings are outside.", "3/C14"),
    "C15": ("Math family through the dispatch entry points for all payloads: abs, sqrt, ceil/floor/round, lg/log (error instead of panic outside the domain), pow exponent validity (all values) and exact value for exponents <= 4 (8 thorough), arity/type errors; splitAt range clause on two concrete receivers. String/regex family is outside.", "3/C15"),
    "C16": ("Timestamp/duration arithmetic: exact result or error outside the representable range (never a panic) for all instants/durations; duration algebra d1+d2-d2==d1; duration accessors; chronological order. Calendar accessors, zones, uomConvert are outside.", "3/C16"),
}

NA = {
    "C02": "parser precedence/associativity: the recursive-descent parser cannot be executed symbolically (HashMap/SipHash in BindContext::for_compile and ProgramDetails, boxed AST, Kani ICE on regex-automata); no scalar kernel to isolate (DESIGN 3/C02, probes 18-19).",
    "C07": "comprehension macros clone both contexts (HashMaps) and re-enter the VM loop per element; neither a one-entry HashMap nor a three-instruction run_raw finishes under Kani (probes 12-15).",
    "C08": "has()/coalesce() classification is only reachable through Interpreter::run_raw on an argument block; the VM loop is not encodable within reach (probe 15).",
    "C09": "needs the compiler (probes 18-19) and the VM (probes 13-15) side by side; neither is encodable. The shared value operations are decided under C03-C06.",
    "C11": "operation histories over HashMap-backed contexts (probes 12, 19); Kani does not model threads; the known nondeterminism is HashMap RandomState, which is exactly what is intractable.",
    "C13": "tokenizer cannot be executed symbolically even on \"\\xHH\" (std String/radix/float-parsing loops, probes 16-17); the IntLit->i64 narrowing sits inside the parser.",
    "C17": "ProgramDetails (HashSet<String>) is produced only by the compiler, which is out of reach (probes 18-19).",
    "C18": "spans come from tokenizer + parser on source text; std string routines and the parser are not encodable within reach (probes 16-18).",
    "C19": "serde_json/bincode visitors over heap trees (Program, Vec<ByteCode>, HashSet); nothing of it is a scalar kernel.",
    "C20": "translation walks the parser's boxed AST, which cannot be built without the parser; string formatting is the subject, so the fmt stub cannot be used.",
}

def main():
    commits = subprocess.run(["git", "-C", "/repo", "log", "--format=%H %s"], capture_output=True, text=True).stdout.splitlines()
    hook_commits = [c.split()[0] for c in commits if "verif hooks" in c]
    checks = []
    for pid, (text, ref) in CLAIMED.items():
        checks.append({
            "property_id": pid,
            "quick_cmd": f"./check {pid} --tier quick",
            "thorough_cmd": f"./check {pid} --tier thorough",
            "evidence_file": f"/verif/evidence/{pid}.json",
            "replay_cmd_template": f"./check {pid} --replay {{path}}",
            "engine": "kani",
            "level_claimed": {"category": "model_checking", "text": text, "design_ref": f"DESIGN.md section {ref}"},
            "level_note": "Bounded: operand kinds concrete per query, payloads fully symbolic (64-bit ints, all doubles, strings/bytes <= 2 bytes); Kani unwinding assertions on. Trusted: Kani 0.68 MIR->GOTO, CBMC 6.11, CaDiCaL, Rust core integer/float primitives used by the oracles. Stub: alloc::fmt::format -> empty string. Features: type_prop, neg_index, verif_hooks; protobuf off. Every counterexample is replayed against the native dev and release builds before it is reported.",
            "technique": "bounded model checking (Kani/CBMC SAT) of the real rscel functions with symbolic operands against a specification oracle",
        })
    m = {
        "version": 1,
        "setup_cmd": "./setup.sh",
        "hooks": {
            "guard": "cargo feature verif_hooks (rscel/Cargo.toml)",
            "enable": "harness crate /verif/kani depends on rscel = { path = \"/repo/rscel\", default-features = false, features = [\"type_prop\", \"neg_index\", \"verif_hooks\"] }",
            "baseline_off_cmd": "cd /repo && cargo nextest run --workspace --no-fail-fast --test-threads 8 --offline || cargo test --workspace --no-fail-fast --offline",
            "source_commits": hook_commits,
            "add_only": True,
        },
        "engines": [{
            "name": "kani",
            "path": "/verif/kani",
            "serves_properties": sorted(CLAIMED),
            "kind_free_text": "Kani 0.68 proof harnesses (external crate, path dependency on /repo/rscel) generated from /verif/harnesses.py; driver /verif/check runs cargo kani, parses the JSON export, replays counterexamples natively",
        }],
        "checks": checks,
        "not_applicable": [{"property_id": k, "reason": v} for k, v in sorted(NA.items())],
        "notes": "Technique family: solver-based checking of the real code. See DESIGN.md for bounds, stubs, and what each claim leaves outside.",
    }
    json.dump(m, open("/verif/MANIFEST.json", "w"), indent=1)

if __name__ == "__main__":
    main()
