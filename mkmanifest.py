#!/usr/bin/env python3
"""Writes MANIFEST.json from the tables below (kept in one place so it stays schema-valid)."""
import json, subprocess

KANI = "bounded model checking (Kani/CBMC SAT) of the real rscel functions with symbolic operands against a specification oracle"
MIRSYM = "symbolic execution of rustc's MIR for the real functions (own executor + z3): all paths within the bounds, UNSAT query per obligation, native replay of counterexamples"
BOTH = KANI + "; and " + MIRSYM

# property -> (claim text, DESIGN section, engines)
CLAIMED = {
    "C01": ("Totality (a value or an error, never a panic) of: every operator entry point on every ordered pair of scalar kinds, every scalar built-in/constructor reached directly, the VM jump check (Kani, all payloads); and of one run of the bytecode VM on every instruction template and of every macro body driver (mirsym: no path of run_raw / the macro functions reaches a panic, for all operand values). Source text -> tokenizer/parser/compiler and stack exhaustion are outside.", "3/C01", "both"),
    "C02": ("The real recursive-descent parser (parse_expression and everything below it, from rustc's MIR) is executed on token sequences whose operator tokens are symbolic: for every ordered pair of the 14 binary operators `a op1 b op2 c` is grouped by the grammar's precedence and to the left on equal precedence, `a op1 (b op2 c)` keeps the parenthesised grouping, the emitted code is the post-order of that grouping (operand order on the VM stack), the emitted block is well-formed; `c ? x : y` is a conditional over (c, x, y). Unary runs, postfix chains, nested conditionals, chains of 3 and more operators, whitespace (tokenizer) and evaluation results of whole programs are outside.", "3/C02", "mirsym"),
    "C03": ("+ - * and unary - on int/uint/double/bool operands are compared with a mathematical oracle for ALL 64-bit payloads (one UNSAT proof per operator x kind pair); / and %: error predicate full width, quotient/remainder exactness for |a|,|b| < 2^15 plus a boundary set; every non-numeric pairing must be an error (Kani). The VM applies each arithmetic opcode to (first pushed, second pushed) in that order, for bound and literal operands alike (mirsym, vm_binops).", "3/C03", "both"),
    "C04": ("Complement, symmetry, reflexivity, trichotomy, <=/>= unions, mathematical int/uint order, nearest-double comparison, 'unrelated kinds fail', transitivity on triples - for all payloads of scalars, strings/bytes <= 2 bytes, durations, timestamps (Kani); the VM applies each relational opcode to its operands in source order (mirsym). sort/min/max are outside.", "3/C04", "both"),
    "C05": ("One truthiness table across !, ||, &&, bool(), is_truthy and the absorption rules of ||/&& for every ordered pair of kinds, all payloads (Kani). VM side (mirsym): Test keeps a failure and otherwise yields the truthiness; JmpCond pops its condition, jumps iff Bool == when, treats a failing condition as 'false', rejects other kinds; stack effects of Dup/Pop/Not/Neg. The compiler's templates (mirsym, parser executed from MIR): the block the real parser emits for `a || b`, `a && b` and `c ? x : y` over variable operands is run on the reference machine for every truthiness/failure of the left operand or condition: b is evaluated exactly when a does not decide, exactly one of x and y is evaluated, chosen by the truthiness of c, and a failing c is the result. match, constant operands (folding) and nested combinations are outside.", "3/C05", "both"),
    "C06": ("String/bytes concatenation, size, `in`/index on scalar containers, one-element lists (Kani). VM side (mirsym): MkList(n) builds the list of the last n pushed values in push order, MkDict(n) pairs keys with values and rejects non-string keys, Index/In apply their operation to (container, index) in that order, `m.k` returns the stored field before any method of that name and an absent-field failure otherwise. List indexing arithmetic over symbolic lists and the compile-time literal construction are outside.", "3/C06", "both"),
    "C07": ("all / exists / exists_one / filter / map (2 and 3 arguments, lists and maps) / reduce: for every list length 0..=3 and every combination of per-element body outcomes (truthy, falsy, failing with any error kind) the value returned equals the defining fold and the body is evaluated exactly on the expected elements, in order, each under a binding of the loop variable to that element on an interpreter built from clones of the caller's contexts, stopping at the first deciding or failing element. What `run_raw` does with a body is outside (it is an arbitrary result here).", "3/C07", "mirsym"),
    "C08": ("has(e): true when e evaluates, false exactly for unbound-variable / absent-field failures, every other failure propagated unchanged; coalesce(e1..en), n <= 5: first result that is neither null nor absent, arguments evaluated left to right on the caller's interpreter and none after the chosen one, other failures propagated, null otherwise - for every combination of argument outcomes. Which failures the VM classifies as unbound/absent is covered for identifiers and map fields by the VM targets (C12/C06).", "3/C08", "mirsym"),
    "C10": ("The VM's jump check accepts exactly the targets inside the block or at its end, for all (pc, dist, len) (Kani); Jmp/JmpCond in the real VM loop land on the checked target or fail, for all distances (mirsym). The blocks the real parser emits for operator chains, parenthesised chains, ||, && and ?: are well-formed (every label resolves inside the block, forward jumps only, no pop from an empty stack, one value on every path) - decided on the emitted instructions for every operator pair (mirsym). Other constructs' output is outside.", "3/C10", "both"),
    "C12": ("JSON scalars convert to the same CelValue as direct binding (Kani). VM side (mirsym): an identifier operand resolves to a type name, then a bound variable, then a stored program run on the same interpreter, else an unbound-name failure; in call position a bound function wins over a macro over a type constructor, arguments keep source order, bytecode arguments are evaluated for functions and passed unevaluated to macros; a map field wins over a method; the call-depth counter is incremented on entry, bounds the depth (must run at depth <= 16, must fail beyond 128) and is restored on every exit path. Re-binding, re-adding programs and depth through macro bodies are outside.", "3/C12", "both"),
    "C14": ("Scalar conversions through construct_type for all payloads: int/uint/double/bool/dyn/type, range errors instead of wrapped values, truncation toward zero with saturation, type(T(x)) == T, bytes<->string on <= 2 bytes (Kani); FmtString(n) concatenates its n string segments in source order and fails on a non-string segment; the ten type constructors accept exactly the argument shapes of their overloads and answer everything else with an error (mirsym). String<->number round trips and the f-string lowering in the compiler are outside.", "3/C14", "both"),
    "C13": ("The tokenizer on literals that make up the whole input: decimal and hexadecimal integers with and without u (1..=4 characters of any printable ASCII after a leading digit, 0x + up to 3 more, the 10000 literals around u64::MAX) carry exactly the value their digits spell or are rejected when it does not fit 64 bits; doubles are parsed from exactly their own text; quoted strings of up to 3 arbitrary characters, \\xHH, \\uHHHH, \\UHHHHHHHH, three-digit octal and the single-character escapes yield exactly the characters they spell, malformed digits and invalid code points are rejected. An integer literal token with any u64 payload becomes exactly that int64 in the parser or is a syntax error above the int64 range. f-strings, longer texts and the correct rounding of doubles (std) are outside.", "3/C13", "mirsym"),
    "C17": ("Filtering the reported names against a binding set removes exactly the names that set binds as variables, functions or macros (IdentFilterIter::next and BindContext::is_bound, for every sequence of up to 3 names and every binding set). For operator chains, parenthesised chains and the conditional the parameter set the real parser reports is exactly the set of identifiers in the token sequence (also those in the branch not taken). Identifiers in calls, macros, f-strings, index/map/match positions are outside.", "3/C17", "mirsym"),
    "C18": ("Token spans: for every literal the tokenizer targets of C13 explore, the token's span starts at (0,0) and ends at the (line, column) reached by counting characters and restarting the column after each newline. Syntax-tree spans: in `a op1 b op2 c` and `a op1 (b op2 c)` every node spans exactly from its leftmost to its rightmost token (parentheses included), for every operator pair, which gives nesting and sibling disjointness for these shapes. Other node kinds, re-compiling the spanned text and error locations are outside.", "3/C18", "mirsym"),
    "C19": ("Variant tags of the serde derives: for CelValue, CelError, ByteCode and JmpWhen every variant that Serialize writes - with its index tag (bincode) and its name tag (JSON) - is selected again by Deserialize's visit_u64 / visit_str, for all variants, all u64 tags and all strings; only variants no compiled program can contain may be refused. Payload encodings (millisecond timestamps/durations, nested containers), Program/ProgramDetails structs and the bindings' entry points are outside.", "3/C19", "mirsym"),
    "C15": ("Math family through the dispatch entry points for all payloads: abs, sqrt, ceil/floor/round, lg/log (error instead of panic outside the domain), pow exponent validity (all values) and exact value on bounded bases/exponents (Kani). Shapes (mirsym): for each of the 31 built-ins generated by #[dispatch] (math, string, regex, size, sort, uom) a call runs exactly the overload whose receiver/parameter kinds it matches, with the payloads in order, and every other arity or kind - also too many arguments - is an error, for every combination of 11 kinds. What the string/regex overloads compute is outside.", "3/C15", "both"),
    "C16": ("Timestamp/duration arithmetic: exact result or error outside the representable range (never a panic) on windows of instants with all durations; duration algebra d1+d2-d2==d1; duration accessors; chronological order; UTC calendar accessors against an independent civil-from-days computation. Overload resolution of the ten accessors (receiver timestamp or duration, optional zone string) for every combination of kinds (mirsym). What the zone forms compute and uomConvert are outside.", "3/C16", "both"),
}

NA = {
    "C09": "needs the compiler's constant folder (compile! macro, check_for_const) side by side with the VM on the same expression for literal and variable forms; the parser is executable by mirsym on short token sequences, but folding calls the value operations, built-ins and macros at compile time, which are uninterpreted there, so agreement of the two forms is not decidable beyond what C05/C06 already state for the templates. The shared value operations are decided under C03-C06 and the VM's use of them under the vm_* targets.",
    "C11": "operation histories over HashMap-backed contexts and threads; Kani does not model threads, and HashMap iteration order (RandomState) is exactly what is intractable. mirsym shows for the macros that evaluation happens on clones of the caller's contexts (C07) but histories of the public API are not explored.",
    "C20": "the translator is a separate crate (extensions/to_sql) that walks the parser's boxed AST and builds SQL text with format!/String pushes; string formatting is the subject, which neither engine encodes (Kani: format machinery explodes; mirsym: no model of fmt::Arguments).",
}

def main():
    commits = subprocess.run(["git", "-C", "/repo", "log", "--format=%H %s"], capture_output=True, text=True).stdout.splitlines()
    hook_commits = [c.split()[0] for c in commits if "verif hooks" in c]
    checks = []
    for pid, (text, ref, eng) in CLAIMED.items():
        checks.append({
            "property_id": pid,
            "quick_cmd": f"./check {pid} --tier quick",
            "thorough_cmd": f"./check {pid} --tier thorough",
            "evidence_file": f"/verif/evidence/{pid}.json",
            "replay_cmd_template": f"./check {pid} --replay {{path}}",
            "engine": {"kani": "kani", "mirsym": "mirsym", "both": "kani+mirsym"}[eng],
            "level_claimed": {"category": "model_checking", "text": text, "design_ref": f"DESIGN.md section {ref}"},
            "level_note": ("" if eng == "kani" else "mirsym: bounded symbolic execution of the MIR rustc emits for /repo's current source (features type_prop, neg_index; no hooks): lists <= 3 elements, <= 5 macro arguments, fixed instruction templates with symbolic operands, depth counter 0..=200; std containers follow the summaries in mirsym/models.py, value operations/bodies/lookups are uninterpreted (listed per run in the evidence); counterexamples are confirmed natively (public API / real VM against a reference using the real value operations) before they are reported. Trusted: rustc's MIR, the executor in /verif/mirsym, z3. ") + ("" if eng == "mirsym" else "Kani: ") + ("" if eng == "mirsym" else "Bounded: operand kinds concrete per query, payloads fully symbolic (64-bit ints, all doubles, strings/bytes <= 2 bytes); Kani unwinding assertions on. Trusted: Kani 0.68 MIR->GOTO, CBMC 6.11, CaDiCaL, Rust core integer/float primitives used by the oracles. Stub: alloc::fmt::format -> empty string. Features: type_prop, neg_index, verif_hooks; protobuf off. Every counterexample is replayed against the native dev and release builds before it is reported."),
            "technique": {"kani": KANI, "mirsym": MIRSYM, "both": BOTH}[eng],
        })
    m = {
        "version": 1,
        "setup_cmd": "./setup.sh",
        "hooks": {
            "guard": "cargo feature verif_hooks (rscel/Cargo.toml)",
            "enable": "harness crate /verif/kani depends on rscel = { path = \"/repo/rscel\", default-features = false, features = [\"type_prop\", \"neg_index\", \"verif_hooks\"] }",
            "baseline_off_cmd": "cd /repo && cargo nextest run --workspace --no-fail-fast --test-threads 8 --offline || cargo test --workspace --no-fail-fast --offline",
            "source_commits": hook_commits,
            "add_only": True,
        },
        "engines": [{
            "name": "mirsym",
            "path": "/verif/mirsym",
            "serves_properties": sorted(k for k, v in CLAIMED.items() if v[2] != "kani"),
            "kind_free_text": "symbolic executor for rustc MIR (python + z3): dumps the MIR of /repo's rscel crate on every run, executes the target functions path by path with symbolic inputs, std containers by summaries, value operations uninterpreted; specifications are reference semantics (defining folds of the macros, a reference stack machine for the VM) discharged per path by UNSAT queries",
        }, {
            "name": "kani",
            "path": "/verif/kani",
            "serves_properties": sorted(k for k, v in CLAIMED.items() if v[2] != "mirsym"),
            "kind_free_text": "Kani 0.68 proof harnesses (external crate, path dependency on /repo/rscel) generated from /verif/harnesses.py; driver /verif/check runs cargo kani, parses the JSON export, replays counterexamples natively",
        }],
        "checks": checks,
        "not_applicable": [{"property_id": k, "reason": v} for k, v in sorted(NA.items())],
        "notes": "Technique family: solver-based checking of the real code. See DESIGN.md for bounds, stubs, and what each claim leaves outside.",
    }
    json.dump(m, open("/verif/MANIFEST.json", "w"), indent=1)

if __name__ == "__main__":
    main()
