"""Native confirmation of a counterexample of the SQL targets (t_sql).

The scenario is a concrete token sequence (string literal tokens with concrete content).  It is
rendered as CEL source and translated by the real translator - the repository's own
`cel2sql` example of the rscel-to-sql crate, built from the tree under test.  The SQL text it
prints is read by the independent SQL reader of t_sql at character level and compared with the
tree the reference parser assigns to the token sequence; a string literal must come back as one
SQL literal with the same content."""
import os
import subprocess

import t_grammar as TG
import t_sql as TS
from replay_grammar import TOKEN_TEXT


def build_sql(repo, cache):
    env = dict(os.environ)
    env["CARGO_NET_OFFLINE"] = "true"
    env.pop("RUSTFLAGS", None)
    td = os.path.join(cache, "native-sql")
    p = subprocess.run(["cargo", "build", "--offline", "-p", "rscel-to-sql", "--example", "cel2sql", "--target-dir", td], cwd=repo, env=env, capture_output=True, text=True)
    exe = os.path.join(td, "debug", "examples", "cel2sql")
    if p.returncode != 0 or not os.path.exists(exe):
        return None, p.stderr[-2000:]
    return exe, ""


def cel_string(chars):
    out = '"'
    for c in chars:
        ch = chr(c)
        if ch == '"' or ch == "\\":
            out += "\\" + ch
        elif ch == "\n":
            out += "\\n"
        elif c < 32 or c == 127:
            out += "\\x%02x" % c
        else:
            out += ch
    return out + '"'


def usable(chars):
    return all((32 <= c < 127) or c == 10 for c in chars)


def replay_sql(exe, failures):
    tried, seen = [], set()
    for f in failures:
        sc = f.get("scenario")
        if not sc or sc.get("kind") != "sql":
            continue
        tokens = sc["tokens"]
        words, rtoks, contents = [], [], {}
        ok = True
        for i, t in enumerate(tokens):
            if t[0] == "Ident":
                words.append(t[1])
                rtoks.append(("Ident", t[1]))
            elif t[0] == "IntLit":
                words.append(str(t[1]))
                rtoks.append(("IntLit", t[1]))
            elif t[0] == "StringLit":
                chars = [c if usable([c]) else 39 for c in t[1]]
                words.append(cel_string(chars))
                contents[i] = "".join(map(chr, chars))
                rtoks.append(("StringLit", contents[i]))
            elif t[0] in TOKEN_TEXT:
                words.append(TOKEN_TEXT[t[0]])
                rtoks.append((t[0], None))
            elif t[0] == "FStringLit":
                import replay_grammar as RG
                w = RG.words_of([tuple(t)])
                if w is None:
                    ok = False
                else:
                    words.append(w[0])
                    rtoks.append(RG.ref_tokens([tuple(t)])[0])
            else:
                ok = False
        if not ok:
            continue
        src = " ".join(words)
        if src in seen:
            continue
        seen.add(src)
        rec = {"label": f["label"], "source": src}
        tried.append(rec)
        p = TG.RefParser(rtoks)
        try:
            want = p.expr()
            if p.p != len(rtoks):
                want = None
        except TG.Reject:
            want = None
        if want is None:
            continue
        r = subprocess.run([exe, src], capture_output=True, text=True, timeout=60)
        out, err = r.stdout.strip(), r.stderr
        rec["native"] = {"sql": out, "stderr": err[-300:] if r.returncode else ""}
        try:
            exp = TS.expected_sql(want, lambda v: v, rtoks, lit=lambda i: str(rtoks[i][1]), content=lambda i: contents[i])
        except TS.SqlError:
            if r.returncode == 0:
                rec["reproduced"] = True
                return {"status": "reproduced", "summary": f"`{src}` has no translation but came out as `{out}`", "attempts": tried}
            if "Failed to generate SQL" not in err:
                rec["reproduced"] = True
                return {"status": "reproduced", "summary": f"`{src}`: the translator panicked instead of reporting an unsupported construct", "attempts": tried}
            continue
        bad = None
        if r.returncode != 0:
            bad = f"the translator failed: {err.strip().splitlines()[-1] if err.strip() else r.returncode}"
        else:
            try:
                got = TS.sql_parse([out])
                diffs = []
                TS.same_sql(got, exp, diffs)
                if diffs:
                    bad = f"the SQL `{out}` does not denote the source's tree: {diffs[0]}"
            except TS.SqlError as e:
                bad = f"the SQL `{out}` does not read as one expression: {e}"
        if bad:
            rec["reproduced"] = True
            return {"status": "reproduced", "summary": f"`{src}`: {bad}", "attempts": tried}
    ran = any("native" in t for t in tried)
    return {"status": "not_reproduced" if ran else "unavailable", "summary": "the native translator's SQL reads back as the source's tree on every concrete token sequence" if ran else "no scenario could be made concrete",
            "attempts": tried}
