"""Targets: the whole expression grammar of the real parser against an independent reference
parser and reference evaluator (properties C02, C05, C09, C10, C17, C18).

The MIR of `CelCompiler::parse_expression` and everything below it is executed on token
templates (as in t_parse).  A template fixes the number of tokens; operator tokens may be
symbolic over a set of kinds and operands may be *atoms* - symbolically an identifier or an
integer literal - so that every folding combination the compiler distinguishes (all operands
constant, some, none) is a path of the same template.

For every path, and every resolution of the symbolic token kinds, the result of the real parser
is compared with

* an independent recursive-descent parser for the CEL grammar written here (precedence levels,
  left association, unary runs, postfix chains, parentheses, list/map construction, right-nested
  conditionals): same tree shape, same operand and argument order, same number of tokens
  consumed, a syntax error exactly when the reference rejects the sequence (C02);
* the extents the reference assigns to every node (leftmost to rightmost token): every
  expression node of the real tree carries exactly that span (C18);
* the identifiers of the token sequence that stand in variable position: all of them are
  reported as parameters, nothing that is not an identifier of the source is (C17);
* the well-formedness rules of an emitted block (C10);
* a reference evaluator of the tree under CEL's semantics - strict operators apply the value
  operation to (left, right), `||`/`&&`/`?:` are lazy by truthiness and failure, literals and
  variables are treated alike: running the *emitted code* (whatever part of it the compiler
  folded at compile time) on the reference stack machine yields the same value term and reads
  the same variables (C02 evaluation, C05 laziness, C09 folding is invisible).

Value operations are uninterpreted: a folded constant is identified with the term of the
operation that produced it, its failure/truthiness are the same uninterpreted facts the
run-time reference uses for that term."""
import z3

import engine
import models
from engine import VAdt, VBool, VInt, VOpaque, VRef, VSeq, VStruct, VTuple, VUnit, VMap, VIter, base_ty, vcopy, norm_ty
from specutil import is_variant, run_reference, vid_of
import t_parse as TP
from t_parse import mk_token, variant, code_points, verify_block, result_parts, entry, PREC, BINARY_TOKENS

I64_MAX = (1 << 63) - 1
OPNAME = {"Add": "Add", "Minus": "Sub", "Multiply": "Mul", "Divide": "Div", "Mod": "Mod", "LessThan": "Lt", "LessEqual": "Le", "EqualEqual": "Eq", "NotEqual": "Ne",
          "GreaterEqual": "Ge", "GreaterThan": "Gt", "In": "In", "OrOr": "Or", "AndAnd": "And"}
AST_TO_OP = {"Add": "Add", "Sub": "Sub", "Mult": "Mul", "Div": "Div", "Mod": "Mod", "Lt": "Lt", "Le": "Le", "Eq": "Eq", "Ne": "Ne", "Ge": "Ge", "Gt": "Gt", "In": "In",
             "ConditionalOr": "Or", "ConditionalAnd": "And"}
# callee of a compile-time value operation -> opcode name of the run-time instruction
FOLD_OP = [("as Add>::add", "Add"), ("as Sub>::sub", "Sub"), ("as Mul>::mul", "Mul"), ("as Div>::div", "Div"), ("as Rem>::rem", "Mod"), ("as Not>::not", "Not"), ("as Neg>::neg", "Neg"),
           ("CelValueDyn>::eq", "Eq"), ("::neq", "Ne"), ("::lt", "Lt"), ("::le", "Le"), ("::gt", "Gt"), ("::ge", "Ge"), ("::in_", "In"), ("::index", "Index"), ("::or", "Or"), ("::and", "And"), ("CelValueDyn>::access", "Access"), ("::access", "Access")]


# ----------------------------------------------------------------------------- token templates
def atom(ex, i, name):
    """token i is symbolically the identifier `name` or an integer literal"""
    T = ex.P.types
    ii, il = T.variant_index("Token", "Ident"), T.variant_index("Token", "IntLit")
    d = z3.BitVec(ex.fresh_name(f"tok{i}.d"), 64)
    ex.assume(z3.Or(d == ii, d == il))
    v = ex.fresh("u64", f"lit{i}")
    ex.assume(z3.ULE(v.bv, I64_MAX))
    t = VAdt("Token", d, {ii: [VOpaque("String", ex.new_vid(), "name:" + name)], il: [v]}, ex.new_vid())
    rng = VStruct("SourceRange", [TP.loc(0, 3 * i), TP.loc(0, 3 * i + 2)])
    return VStruct("TokenWithLoc", [t, rng], ex.new_vid())


def stairs(i):
    """a layout that puts every token on its own line, each further to the left than the one before:
    (line, first column, end column)"""
    return (i, 40 - 3 * i, 42 - 3 * i)


def fstring_token(ex, i, segs):
    """an f-string token: `segs` is a list of ("lit", text) | ("expr", [template items]); every
    embedded expression gets its own token stream (served to the nested compiler by the tokenizer
    model), identified through the tag of the segment's string"""
    T = ex.P.types
    idx = T.variant_index("Token", "FStringLit")
    items = []
    streams = ex.notes.setdefault("nested", [])
    for kind, body in segs:
        if kind == "lit":
            si = T.variant_index("FStringSegment", "Lit")
            items.append(VAdt("FStringSegment", si, {si: [VOpaque("String", ex.new_vid(), "lit:" + body)]}, ex.new_vid()))
        else:
            k = len(streams)
            toks = template(*body)(ex) if not callable(body) else body(ex)
            streams.append({"toks": toks, "pos": 0})
            si = T.variant_index("FStringSegment", "Expr")
            items.append(VAdt("FStringSegment", si, {si: [VOpaque("String", ex.new_vid(), f"fexpr:{k}")]}, ex.new_vid()))
    seq = VSeq("FStringSegment", len(items), items, ex.new_vid())
    t = VAdt("Token", idx, {idx: [seq]}, ex.new_vid())
    rng = VStruct("SourceRange", [TP.loc(0, 3 * i), TP.loc(0, 3 * i + 2)])
    return VStruct("TokenWithLoc", [t, rng], ex.new_vid())


def template(*items, layout=None):
    def build(ex):
        toks = build_tokens(ex)
        if layout is not None:
            ex.notes["layout"] = layout
            for i, tw in enumerate(toks):
                l, c0, c1 = layout(i)
                tw.fields[1] = VStruct("SourceRange", [TP.loc(l, c0), TP.loc(l, c1)])
        return toks

    def build_tokens(ex):
        toks = []
        for i, it in enumerate(items):
            if isinstance(it, dict):
                toks.append(fstring_token(ex, i, it["fstring"]))
            elif isinstance(it, (tuple, list)):
                toks.append(mk_token(ex, i, None, sym=list(it)))
            elif it == "$":
                toks.append(mk_token(ex, i, "StringLit", VOpaque("String", ex.new_vid(), f"strlit:{i}")))
            elif it == "#":
                v = ex.fresh("u64", f"lit{i}")
                ex.assume(z3.ULE(v.bv, I64_MAX))
                toks.append(mk_token(ex, i, "IntLit", v))
            elif it.startswith("@"):
                toks.append(atom(ex, i, it[1:]))
            elif it[0].islower() or it[0] == "_":
                toks.append(TP.ident(ex, i, it))
            else:
                toks.append(mk_token(ex, i, it))
        return toks
    return build


def token_facts(ex, A, toks=None):
    """resolve every token under the reference's assumptions -> [(kind, payload)]"""
    out = []
    for tw in (ex.notes["toks"] if toks is None else toks):
        t = tw.fields[0]
        names = [v[0] for v in ex.adt_variants(t.ty)]
        if isinstance(t.discr, int):
            k = names[t.discr]
        else:
            k = None
            for cand in names:
                if A.ask(is_variant(ex, t, cand)):
                    k = cand
                    break
        idx = names.index(k)
        f = t.fields.get(idx) or []
        if k == "Ident":
            out.append((k, getattr(f[0], "vid", None)))
        elif k == "IntLit":
            out.append((k, f[0]))
        elif k == "FStringLit":
            segs = []
            for sg in f[0].items:
                sk = variant(ex, sg)
                sv = sg.fields[sg.discr][0]
                if sk == "Lit":
                    segs.append(("lit", sv.vid))
                else:
                    kk = int(sv.tag.split(":")[1])
                    segs.append(("expr", token_facts(ex, A, ex.notes["nested"][kk]["toks"])))
            out.append((k, segs))
        else:
            out.append((k, None))
    return out


def all_token_lists(ex):
    return [ex.notes["toks"]] + [st["toks"] for st in ex.notes.get("nested", [])]


def ident_names(ex):
    """vid -> spelling of every identifier token of the template"""
    out = {}
    ii = ex.P.types.variant_index("Token", "Ident")
    for toks in all_token_lists(ex):
        for tw in toks:
            f = tw.fields[0].fields.get(ii)
            if f and getattr(f[0], "tag", None):
                out[f[0].vid] = f[0].tag.split(":", 1)[1]
    return out


# ----------------------------------------------------------------------------- the reference parser
class Reject(Exception):
    pass


class N(dict):
    """reference tree node: k (kind), lo/hi (token extent), further fields"""
    __getattr__ = dict.__getitem__


RELOPS = ("LessThan", "LessEqual", "EqualEqual", "NotEqual", "GreaterEqual", "GreaterThan", "In")
LITERALS = ("IntLit", "UIntLit", "FloatLit", "StringLit", "ByteStringLit", "BoolLit", "Null")
# integer literals of nested streams are numbered after the outer tokens: (stream, index)


class RefParser:
    """CEL grammar (cel-spec langdef, as rscel documents it):
       expr    = cond_or ['?' cond_or ':' expr]
       cond_or = cond_and {'||' cond_and} ; cond_and = relation {'&&' relation}
       relation = addition {relop addition} ; addition = mult {('+'|'-') mult} ; mult = unary {('*'|'/'|'%') unary}
       unary   = '!' {'!'} member | '-' {'-'} member | member
       member  = primary {'.' IDENT | '(' [exprs] ')' | '[' expr ']'}
       primary = IDENT | literal | '(' expr ')' | '[' [exprs] [','] ']' | '{' [inits] [','] '}'"""

    def __init__(self, toks, names=None, stream=None):
        self.t = toks
        self.p = 0
        self.names = names            # identifier payload -> spelling (None: payloads are spellings)
        self.stream = stream          # None: the outer token sequence; else the path of an embedded one

    def spelling(self, i):
        v = self.t[i][1]
        return v if self.names is None else self.names.get(v)

    def peek(self):
        return self.t[self.p][0] if self.p < len(self.t) else None

    def take(self, kind=None):
        if self.p >= len(self.t) or (kind is not None and self.t[self.p][0] != kind):
            raise Reject(f"expected {kind} at token {self.p}")
        self.p += 1
        return self.p - 1

    PATTERN_OPS = {"EqualEqual": "Eq", "NotEqual": "Ne", "GreaterThan": "Gt", "GreaterEqual": "Ge", "LessThan": "Lt", "LessEqual": "Le"}

    def match(self):
        """'match' expr '{' {'case' pattern ':' expr [',']} '}' ; pattern = '_' | [cmp-op] cond_or
        (a pattern that is the name of a type is outside the reference)"""
        lo = self.take("Match")
        scrut = self.expr()
        self.take("LBrace")
        cases, comma = [], True
        while self.peek() != "RBrace":
            if not comma:
                raise Reject(f"expected a comma at token {self.p}")
            self.take("Case")
            if self.peek() == "Ident" and self.spelling(self.p) == "_":
                i = self.take()
                pat = N(k="any", lo=i, hi=i)
            else:
                plo = self.p
                op = "Eq"
                if self.peek() in self.PATTERN_OPS:
                    op = self.PATTERN_OPS[self.t[self.take()][0]]
                e = self.level(0)
                pat = N(k="cmp", op=op, lo=plo, hi=e.hi, e=e)
            self.take("Colon")
            arm = self.expr()
            cases.append(N(k="case", lo=pat.lo, hi=arm.hi, pat=pat, arm=arm))
            comma = False
            if self.peek() == "Comma":
                self.take()
                comma = True
        hi = self.take("RBrace")
        return N(k="match", lo=lo, hi=hi, s=scrut, cases=cases)

    def expr(self):
        if self.peek() == "Match":
            return self.match()
        c = self.level(0)
        if self.peek() != "Question":
            return c
        self.take()
        x = self.level(0)
        self.take("Colon")
        y = self.expr()
        return N(k="cond", lo=c.lo, hi=y.hi, c=c, x=x, y=y)

    LEVELS = [("OrOr",), ("AndAnd",), RELOPS, ("Add", "Minus"), ("Multiply", "Divide", "Mod")]

    def level(self, i):
        if i == len(self.LEVELS):
            return self.unary()
        left = self.level(i + 1)
        while self.peek() in self.LEVELS[i]:
            op = self.t[self.take()][0]
            right = self.level(i + 1)
            left = N(k="bin", op=OPNAME[op], lo=left.lo, hi=right.hi, l=left, r=right)
        return left

    def unary(self):
        k = self.peek()
        if k in ("Not", "Minus"):
            lo = self.p
            n = 0
            while self.peek() == k:
                self.take()
                n += 1
            m = self.member()
            return N(k="not" if k == "Not" else "neg", n=n, lo=lo, hi=m.hi, x=m)
        return self.member()

    def member(self):
        prim = self.primary()
        elems = []
        while True:
            k = self.peek()
            if k == "Dot":
                lo = self.take()
                i = self.take("Ident")
                elems.append(N(k="access", lo=lo, hi=i, name=self.t[i][1]))
            elif k == "LParen":
                lo = self.take()
                args = self.exprs("RParen")
                hi = self.take("RParen")
                elems.append(N(k="call", lo=lo, hi=hi, args=args))
            elif k == "LBracket":
                lo = self.take()
                e = self.expr()
                hi = self.take("RBracket")
                elems.append(N(k="index", lo=lo, hi=hi, e=e))
            else:
                break
        if not elems:
            return prim
        return N(k="member", lo=prim.lo, hi=elems[-1].hi, prim=prim, elems=elems)

    def exprs(self, ending):
        out = []
        while True:
            if self.peek() == ending:
                break
            out.append(self.expr())
            if self.peek() == "Comma":
                self.take()
                continue
            break
        return out

    def primary(self):
        k = self.peek()
        if k == "Ident":
            i = self.take()
            return N(k="ident", lo=i, hi=i, name=self.t[i][1])
        if k in LITERALS:
            i = self.take()
            return N(k="lit", lo=i, hi=i, tok=i if self.stream is None else (self.stream, i))
        if k == "FStringLit":
            i = self.take()
            segs = []
            for j, (sk, body) in enumerate(self.t[i][1]):
                if sk == "lit":
                    segs.append(("lit", body))
                else:
                    sub = RefParser(body, self.names, stream=(self.stream or ()) + (i, j))
                    tree = sub.expr()
                    if sub.p != len(body):
                        raise Reject("an embedded expression is followed by more tokens")
                    segs.append(("expr", tree))
            return N(k="fstr", lo=i, hi=i, segs=segs)
        if k == "LParen":
            lo = self.take()
            e = self.expr()
            hi = self.take("RParen")
            return N(k="paren", lo=lo, hi=hi, x=e)
        if k == "LBracket":
            lo = self.take()
            items = self.exprs("RBracket")
            hi = self.take("RBracket")
            return N(k="list", lo=lo, hi=hi, items=items)
        if k == "LBrace":
            lo = self.take()
            inits = []
            while True:
                if self.peek() == "RBrace":
                    break
                key = self.expr()
                self.take("Colon")
                val = self.expr()
                inits.append((key, val))
                if self.peek() == "Comma":
                    self.take()
                    continue
                break
            hi = self.take("RBrace")
            return N(k="map", lo=lo, hi=hi, inits=inits)
        raise Reject(f"unexpected {k} at token {self.p}, expecting a primary")


def ref_parse(toks, names=None):
    """-> (tree, tokens consumed) or (None, reason)"""
    p = RefParser(toks, names)
    try:
        tree = p.expr()
    except Reject as r:
        return None, str(r)
    return tree, p.p


def show(n):
    k = n["k"]
    if k == "ident":
        return f"id{n.lo}"
    if k == "lit":
        return f"lit{n.tok}"
    if k == "bin":
        return f"({show(n.l)} {n.op} {show(n.r)})"
    if k in ("not", "neg"):
        return ("!" if k == "not" else "-") * n.n + show(n.x)
    if k == "cond":
        return f"({show(n.c)} ? {show(n.x)} : {show(n.y)})"
    if k == "paren":
        return f"paren[{show(n.x)}]"
    if k == "list":
        return "[" + ", ".join(show(x) for x in n["items"]) + "]"
    if k == "map":
        return "{" + ", ".join(f"{show(a)}: {show(b)}" for a, b in n.inits) + "}"
    if k == "fstr":
        return "f'" + "".join("<text>" if a == "lit" else "{" + show(b) + "}" for a, b in n.segs) + "'"
    if k == "match":
        return "match " + show(n.s) + " {" + ", ".join(("_" if c.pat["k"] == "any" else c.pat.op + " " + show(c.pat.e)) + ": " + show(c.arm) for c in n.cases) + "}"
    if k == "member":
        s = show(n.prim)
        for e in n.elems:
            s += {"access": lambda: f".id{e.hi}", "call": lambda: "(" + ", ".join(show(a) for a in e.args) + ")", "index": lambda: f"[{show(e.e)}]"}[e["k"]]()
        return s
    return str(dict(n))


# ----------------------------------------------------------------------------- reading the real tree
def fields_by_name(ex, v):
    b = v.base()
    return dict(zip([fn for fn, _ in ex.P.types.enums[b][v.discr][1]], v.fields.get(v.discr, [])))


def real_tree(ex, v, tok_of_payload):
    """the real syntax tree in the reference's vocabulary; every logical node collects the spans of
    all AstNode wrappers that stand for it (`spans`)"""
    if isinstance(v, VStruct) and base_ty(v.ty) == "AstNode":
        n = real_tree(ex, v.fields[1], tok_of_payload)
        n.setdefault("spans", []).append(span_of(v))
        return n
    if isinstance(v, VStruct) and base_ty(v.ty) == "Member":
        prim = real_tree(ex, v.fields[0], tok_of_payload)
        seq = v.fields[1]
        if not (isinstance(seq, VSeq) and seq.items):
            return prim
        elems = []
        for e in seq.items:
            node = e.fields[1]
            name = variant(ex, node)
            f = fields_by_name(ex, node)
            if name == "MemberAccess":
                idn = f["ident"]
                elems.append(N(k="access", name=getattr(idn.fields[1].fields[0], "vid", None), spans=[span_of(e)], ident_span=span_of(idn)))
            elif name == "Call":
                lst = f["call"]
                args = [real_tree(ex, a, tok_of_payload) for a in lst.fields[1].fields[0].items]
                elems.append(N(k="call", args=args, spans=[span_of(e), span_of(lst)]))
            elif name == "ArrayAccess":
                elems.append(N(k="index", e=real_tree(ex, f["access"], tok_of_payload), spans=[span_of(e)]))
            else:
                elems.append(N(k="?" + str(name), spans=[span_of(e)]))
        return N(k="member", prim=prim, elems=elems)
    if isinstance(v, VStruct) and base_ty(v.ty) == "Ident":
        return N(k="ident", name=getattr(v.fields[0], "vid", None))
    if isinstance(v, VStruct) and base_ty(v.ty) == "ExprList":
        return N(k="list", items=[real_tree(ex, a, tok_of_payload) for a in v.fields[0].items])
    if isinstance(v, VStruct) and base_ty(v.ty) == "ObjInits":
        inits = []
        for it in v.fields[0].items:
            oi = it.fields[1]
            fs = dict(zip([fn for fn, _ in ex.P.types.structs["ObjInit"]], oi.fields))
            inits.append((real_tree(ex, fs["key"], tok_of_payload), real_tree(ex, fs["value"], tok_of_payload), span_of(it)))
        return N(k="map", inits=[(a, b) for a, b, _ in inits], init_spans=[s for _, _, s in inits])
    if isinstance(v, VAdt):
        name = variant(ex, v)
        b = v.base()
        f = v.fields.get(v.discr, [])
        if name == "Binary":
            fs = fields_by_name(ex, v)
            op = b if "op" not in fs else variant(ex, fs["op"])
            return N(k="bin", op=AST_TO_OP.get(op, op), l=real_tree(ex, fs["lhs"], tok_of_payload), r=real_tree(ex, fs["rhs"], tok_of_payload))
        if b == "Expr" and name == "Match":
            fs = fields_by_name(ex, v)
            cases = []
            for cn in fs["cases"].items:
                mc = cn.fields[1]
                cf = dict(zip([fn for fn, _ in ex.P.types.structs["MatchCase"]], mc.fields))
                pn = cf["pattern"].fields[1]
                pname = variant(ex, pn)
                if pname == "Any":
                    pat = N(k="any")
                elif pname == "Cmp":
                    pf = fields_by_name(ex, pn)
                    pat = N(k="cmp", op={"Neq": "Ne"}.get(variant(ex, pf["op"].fields[1]), variant(ex, pf["op"].fields[1])), e=real_tree(ex, pf["or"], tok_of_payload))
                else:
                    pat = N(k="type")
                cases.append(N(k="case", pat=pat, arm=real_tree(ex, cf["expr"], tok_of_payload), spans=[span_of(cn)]))
            return N(k="match", s=real_tree(ex, fs["condition"], tok_of_payload), cases=cases)
        if b == "Expr" and name == "Ternary":
            fs = fields_by_name(ex, v)
            return N(k="cond", c=real_tree(ex, fs["condition"], tok_of_payload), x=real_tree(ex, fs["true_clause"], tok_of_payload), y=real_tree(ex, fs["false_clause"], tok_of_payload))
        if b == "Unary" and name in ("NotMember", "NegMember"):
            depth = 0
            lst = f[0]
            while True:
                node = lst.fields[1]
                if variant(ex, node) == "EmptyList":
                    break
                depth += 1
                lst = node.fields[node.discr][0]
            return N(k="not" if name == "NotMember" else "neg", n=depth, x=real_tree(ex, f[1], tok_of_payload))
        if b == "Primary" and name == "Parens":
            return N(k="paren", x=real_tree(ex, f[0], tok_of_payload))
        if b == "Primary" and name == "Literal":
            lit = f[0]
            pay = lit.fields.get(lit.discr, [])
            if variant(ex, lit) == "FStringList":
                return N(k="fstr", segs=[("lit" if variant(ex, sg) == "Lit" else "expr", getattr(sg.fields[sg.discr][0], "vid", None)) for sg in pay[0].items])
            return N(k="lit", tok=tok_of_payload(pay[0]) if pay else None, what=variant(ex, lit))
        if b == "Primary" and name in ("ListConstruction", "ObjectInit"):
            inner = real_tree(ex, f[0], tok_of_payload)
            return inner
        if len(f) == 1:
            return real_tree(ex, f[0], tok_of_payload)
        return N(k=f"?{b}::{name}")
    return N(k="?" + repr(v)[:40])


def COL(i):
    return ((0, 3 * i), (0, 3 * i + 2))


def layout_cols(ex):
    lay = ex.notes.get("layout")
    if lay is None:
        return None
    return [((lay(i)[0], lay(i)[1]), (lay(i)[0], lay(i)[2])) for i in range(len(ex.notes["toks"]))]


def span_of(node):
    """((line, column), (line, column)) of an AstNode"""
    rng = node.fields[0]
    return tuple((p.fields[TP.LOC_IDX["line"]].concrete(), p.fields[TP.LOC_IDX["col"]].concrete()) for p in rng.fields[:2])


def stream_of(ex, recv):
    """the token stream a tokenizer object serves: the template's, or the one of an embedded
    expression of an f-string (the nested compiler's `StringTokenizer`)"""
    v = unref_all(ex, recv)
    tag = getattr(v, "tag", None) or ""
    if tag.startswith("nested:"):
        return ex.notes["nested"][int(tag.split(":")[1])]
    if "main_stream" not in ex.notes:
        ex.notes["main_stream"] = None
    return None


def m_peek(ex, callee, args, ret_ty, frame):
    st = stream_of(ex, args[0])
    if st is None:
        return TP.m_peek(ex, callee, args, ret_ty, frame)
    if st["pos"] >= len(st["toks"]):
        return TP.opt_result(ex, ret_ty)
    return TP.opt_result(ex, ret_ty, VRef(ex.heap(st["toks"][st["pos"]], "nested.tok")))


def m_next(ex, callee, args, ret_ty, frame):
    st = stream_of(ex, args[0])
    if st is None:
        return TP.m_next(ex, callee, args, ret_ty, frame)
    if st["pos"] >= len(st["toks"]):
        return TP.opt_result(ex, ret_ty)
    st["pos"] += 1
    return TP.opt_result(ex, ret_ty, vcopy(st["toks"][st["pos"] - 1]))


def m_with_input(ex, callee, args, ret_ty, frame):
    """StringTokenizer::with_input(text) on the text of an embedded expression: a tokenizer that
    serves that expression's token template"""
    v = unref_all(ex, args[0])
    tag = getattr(v, "tag", None) or ""
    if not tag.startswith("fexpr:"):
        raise engine.Unsupported("StringTokenizer::with_input on a text that is not an embedded expression of a template")
    k = int(tag.split(":")[1])
    ex.notes["nested"][k]["pos"] = 0
    return VOpaque("StringTokenizer", ex.new_vid(), f"nested:{k}")


def m_location(ex, callee, args, ret_ty, frame):
    """Tokenizer::location(): the end of the last token handed out"""
    st = stream_of(ex, args[0])
    toks, pos = (ex.notes["toks"], ex.notes["pos"]) if st is None else (st["toks"], st["pos"])
    if pos == 0:
        return TP.loc(0, 0)
    rng = toks[pos - 1].fields[1]
    return vcopy(rng.fields[1])


def compare(got, want, faults, path="root", cols=None):
    """structure -> faults['shape'], spans -> faults['span']"""
    if got["k"] != want["k"]:
        faults["shape"].append(f"{path}: {got['k']} where the grammar has {want['k']}")
        return
    k = want["k"]
    col = (lambda i: cols[i]) if cols else COL
    ext = (col(want.lo)[0], col(want.hi)[1])
    for sp in got.get("spans", []):
        if sp != ext:
            faults["span"].append(f"{path} ({k}): span {sp}, its tokens extend over {ext}")
            break
    if k == "ident":
        if got.name != want.name:
            faults["shape"].append(f"{path}: another identifier")
    elif k == "lit":
        if got.tok != want.tok:
            faults["shape"].append(f"{path}: literal of token {got.tok} where token {want.tok} stands")
    elif k == "bin":
        if got.op != want.op:
            faults["shape"].append(f"{path}: operator {got.op}, grammar {want.op}")
        compare(got.l, want.l, faults, path + ".l", cols=cols)
        compare(got.r, want.r, faults, path + ".r", cols=cols)
    elif k in ("not", "neg"):
        if got.n != want.n:
            faults["shape"].append(f"{path}: {got.n} prefix operators, source has {want.n}")
        compare(got.x, want.x, faults, path + ".x", cols=cols)
    elif k == "cond":
        for a in "cxy":
            compare(got[a], want[a], faults, f"{path}.{a}", cols=cols)
    elif k == "paren":
        compare(got.x, want.x, faults, path + ".x", cols=cols)
    elif k == "fstr":
        if [a for a, _ in got.segs] != [a for a, _ in want.segs]:
            faults["shape"].append(f"{path}: f-string segments {[a for a, _ in got.segs]}, source {[a for a, _ in want.segs]}")
    elif k == "match":
        compare(got.s, want.s, faults, path + ".scrutinee", cols=cols)
        if len(got.cases) != len(want.cases):
            faults["shape"].append(f"{path}: {len(got.cases)} cases, source has {len(want.cases)}")
        else:
            for i, (g, w) in enumerate(zip(got.cases, want.cases)):
                # a case is not an expression node and starts with its pattern, whose span the property
                # excludes: only the arm and the expression inside the pattern are compared
                if g.pat["k"] != w.pat["k"] or (w.pat["k"] == "cmp" and g.pat.op != w.pat.op):
                    faults["shape"].append(f"{path}.case{i}: pattern {g.pat['k']} {g.pat.get('op')}, source has {w.pat['k']} {w.pat.get('op')}")
                elif w.pat["k"] == "cmp":
                    # the spans of patterns are not part of the property (the project does not consume them)
                    sub = {"shape": [], "span": [], "argorder": []}
                    compare(g.pat.e, w.pat.e, sub, f"{path}.case{i}.pattern", cols=cols)
                    faults["shape"] += sub["shape"]
                compare(g.arm, w.arm, faults, f"{path}.case{i}.arm", cols=cols)
    elif k == "list":
        if len(got["items"]) != len(want["items"]):
            faults["shape"].append(f"{path}: {len(got['items'])} elements, source has {len(want['items'])}")
        else:
            for i, (a, b) in enumerate(zip(got["items"], want["items"])):
                compare(a, b, faults, f"{path}[{i}]", cols=cols)
    elif k == "map":
        if len(got.inits) != len(want.inits):
            faults["shape"].append(f"{path}: {len(got.inits)} entries, source has {len(want.inits)}")
        else:
            for i, ((gk, gv), (wk, wv)) in enumerate(zip(got.inits, want.inits)):
                compare(gk, wk, faults, f"{path}{{{i}}}.key", cols=cols)
                compare(gv, wv, faults, f"{path}{{{i}}}.value", cols=cols)
                sp = got.init_spans[i]
                e = (col(wk.lo)[0], col(wv.hi)[1])
                if sp != e:
                    faults["span"].append(f"{path}{{{i}}}: entry span {sp}, its tokens extend over {e}")
    elif k == "member":
        compare(got.prim, want.prim, faults, path + ".prim", cols=cols)
        if [e["k"] for e in got.elems] != [e["k"] for e in want.elems]:
            faults["shape"].append(f"{path}: postfix chain {[e['k'] for e in got.elems]}, source has {[e['k'] for e in want.elems]}")
            return
        for i, (g, w) in enumerate(zip(got.elems, want.elems)):
            e = (col(w.lo)[0], col(w.hi)[1])
            for sp in g.get("spans", []):
                if sp != e:
                    faults["span"].append(f"{path}.postfix[{i}] ({w['k']}): span {sp}, its tokens extend over {e}")
                    break
            if w["k"] == "access":
                if g.name != w.name:
                    faults["shape"].append(f"{path}.postfix[{i}]: another field name")
                if g.ident_span != col(w.hi):
                    faults["span"].append(f"{path}.postfix[{i}]: field name span {g.ident_span}, token at {col(w.hi)}")
            elif w["k"] == "index":
                compare(g.e, w.e, faults, f"{path}.postfix[{i}].index", cols=cols)
            elif w["k"] == "call":
                if len(g.args) != len(w.args):
                    faults["shape"].append(f"{path}.postfix[{i}]: {len(g.args)} arguments, source has {len(w.args)}")
                else:
                    sub = {"shape": [], "span": []}
                    for j, (a, b) in enumerate(zip(g.args, w.args)):
                        compare(a, b, sub, f"{path}.postfix[{i}].arg{j}", cols=cols)
                    if sub["shape"] and len(g.args) > 1:
                        rev = {"shape": [], "span": []}
                        for j, (a, b) in enumerate(zip(reversed(g.args), w.args)):
                            compare(a, b, rev, f"{path}.postfix[{i}].arg{j}", cols=cols)
                        if not rev["shape"]:
                            faults["argorder"].append(f"{path}.postfix[{i}]: the call's arguments appear in the tree in reverse source order")
                            faults["span"] += rev["span"]
                            continue
                    faults["shape"] += sub["shape"]
                    faults["span"] += sub["span"]


def variable_idents(n, out):
    """identifiers in variable position (primary identifiers; not field names)"""
    k = n["k"]
    if k == "ident":
        out.append(n.name)
    elif k == "bin":
        variable_idents(n.l, out), variable_idents(n.r, out)
    elif k in ("not", "neg", "paren"):
        variable_idents(n.x, out)
    elif k == "cond":
        for a in "cxy":
            variable_idents(n[a], out)
    elif k == "fstr":
        for a, b in n.segs:
            if a == "expr":
                variable_idents(b, out)
    elif k == "match":
        variable_idents(n.s, out)
        for c in n.cases:
            if c.pat["k"] == "cmp":
                variable_idents(c.pat.e, out)
            variable_idents(c.arm, out)
    elif k == "list":
        for a in n["items"]:
            variable_idents(a, out)
    elif k == "map":
        for a, b in n.inits:
            variable_idents(a, out), variable_idents(b, out)
    elif k == "member":
        if not (n.prim["k"] == "ident" and n.elems[0]["k"] == "call"):
            variable_idents(n.prim, out)      # `f` in `f(..)` names a function, not a variable
        for e in n.elems:
            if e["k"] == "index":
                variable_idents(e.e, out)
            elif e["k"] == "call":
                for a in e.args:
                    variable_idents(a, out)
    return out


# ----------------------------------------------------------------------------- terms, failure, truthiness
def fails_of(ex, term):
    if term[0] in ("bool", "lit", "null", "text"):
        return z3.BoolVal(False)
    if term[0] == "Not":
        # `!e` is e for a failing e and a bool otherwise (the value operation itself is decided by
        # the Kani harnesses c05_truthy_*; here it is a stated fact about `!`)
        return fails_of(ex, term[1])
    return z3.Bool(f"fails@{term}")


def truthy_of(ex, term):
    if term[0] == "bool":
        return term[1]
    if term[0] == "null":
        return z3.BoolVal(False)
    if term[0] == "Not":
        return z3.And(z3.Not(fails_of(ex, term[1])), z3.Not(truthy_of(ex, term[1])))
    t = z3.Bool(f"truthy@{term}")
    key = ("g-ax", str(term))
    if key not in ex.truthy_memo:
        ex.truthy_memo[key] = True
        ex.assume(z3.Not(z3.And(fails_of(ex, term), t)))
    return t


def term_of_value(ex, v):
    """term of a compile-time CelValue: a literal of the token sequence, or the value operation
    that produced it (recorded by m_fold_op)"""
    terms = ex.notes.setdefault("terms", {})
    vid = getattr(v, "vid", None)
    if vid in terms:
        return terms[vid]
    if vid in ex.notes.get("ct_runs", {}):
        return ("ct", vid)                # result of a call the compiler ran: expanded by the check
    if isinstance(v, VOpaque) and v.ty in ("String", "str"):
        return vid                        # a field name
    if isinstance(v, VAdt) and isinstance(v.discr, int):
        name = variant(ex, v)
        f = v.fields.get(v.discr, [])
        if name == "Int" and f:
            i = literal_token(ex, f[0])
            if i is not None:
                return ("lit", i)
        if name == "Bool" and f and isinstance(f[0], VBool):
            return ("bool", f[0].b if not isinstance(f[0].b, bool) else z3.BoolVal(f[0].b))
        if name == "Null":
            return ("null",)
        if name == "List" and f and isinstance(f[0], VSeq) and isinstance(f[0].length, int):
            return ("list", tuple(term_of_value(ex, x) for x in f[0].items))
        if name == "Ident" and f:
            tag = getattr(f[0], "tag", None) or ""
            if tag.startswith("lit:"):
                ex.notes.setdefault("spell", {})[f[0].vid] = tag[4:]      # a name the compiler wrote itself
            return ("identval", getattr(f[0], "vid", None))
        if name == "String" and f:
            tag = getattr(f[0], "tag", None) or ""
            if tag.startswith("strlit:"):
                return ("lit", int(tag[7:]))           # the string literal token of the template
            return ("text", getattr(f[0], "vid", None))
        if name == "Map" and f and isinstance(f[0], VMap):
            # a folded map literal: entries in insertion order (a later entry of the same key wins, as at run time)
            return ("map", tuple((term_of_value(ex, k) if not isinstance(k, VOpaque) else (("lit", int(k.tag[7:])) if (k.tag or "").startswith("strlit:") else ("text", k.vid)), term_of_value(ex, v)) for k, v in f[0].entries))
    return ("opaque", vid)


def literal_token(ex, payload):
    """index of the literal token whose payload this integer is (decided by the solver)"""
    if isinstance(payload, VOpaque) and (payload.tag or "").startswith("strlit:"):
        return int(payload.tag[7:])
    if not isinstance(payload, VInt):
        return None
    il = ex.P.types.variant_index("Token", "IntLit")
    fi = ex.P.types.variant_index("Token", "FStringLit")
    cands = [(i, tw) for i, tw in enumerate(ex.notes["toks"])]
    # literals inside embedded expressions are numbered (outer index, segment, index)
    for i, tw in enumerate(ex.notes["toks"]):
        ft = tw.fields[0].fields.get(fi) if isinstance(tw.fields[0].discr, int) and tw.fields[0].discr == fi else None
        if ft:
            for j, sg in enumerate(ft[0].items):
                sv = sg.fields[sg.discr][0]
                if (getattr(sv, "tag", "") or "").startswith("fexpr:"):
                    kk = int(sv.tag.split(":")[1])
                    cands += [(((i, j), n), t2) for n, t2 in enumerate(ex.notes["nested"][kk]["toks"])]
    for i, tw in cands:
        f = tw.fields[0].fields.get(il)
        if not f:
            continue
        a, b = f[0].bv, payload.bv
        if a.size() != b.size():
            continue
        if a.eq(b):
            return i
        same = ex.solver.check(a != b) == z3.unsat
        ex.solver_calls += 1
        if same:
            return i
    return None


def m_fold_op(ex, callee, args, ret_ty, frame):
    """a value operation evaluated by the compiler on constant operands: uninterpreted, but the
    result is remembered as the term op(args) and fails exactly when that term fails"""
    op = next((o for pat, o in FOLD_OP if pat in callee or callee.endswith(pat)), callee)
    vals = [models.deref(ex, a) if isinstance(a, VRef) else a for a in args]
    term = (op,) + tuple(term_of_value(ex, v) for v in vals)
    ret = ex.havoc(callee, args, ret_ty, {"ids": [vid_of(ex, a) for a in args], "term": term})
    if isinstance(ret, VAdt) and ret.base() == "CelValue":
        ex.notes.setdefault("terms", {})[ret.vid] = term
        ex.assume(is_variant(ex, ret, "Err") == fails_of(ex, term))
        ex.assume(z3.Not(is_variant(ex, ret, "Ident")))
        ex.assume(z3.Not(is_variant(ex, ret, "ByteCode")))
    return ret


def m_is_truthy(ex, callee, args, ret_ty, frame):
    v = models.deref(ex, args[0])
    ex.used["havocked"].add("CelValueDyn::is_truthy")
    return VBool(truthy_of(ex, term_of_value(ex, v)))


def m_interp_empty(ex, callee, args, ret_ty, frame):
    return VOpaque("Interpreter", ex.new_vid(), "compile-time interpreter")


def m_interp_add_bindings(ex, callee, args, ret_ty, frame):
    return VUnit()


def m_interp_run_raw(ex, callee, args, ret_ty, frame):
    """check_for_const: the compiler runs the call it has just assembled on an interpreter that
    holds its own bindings; the outcome is arbitrary here (a value, or a failure that keeps the
    code).  A value is remembered as `the result of running that code`."""
    code = models.deref(ex, args[1])
    ret = ex.havoc("Interpreter::run_raw (compile time)", args, ret_ty, {"code": vid_of(ex, code)})
    ok = ex.adt_fields(ret, 0)[0]
    if isinstance(ok, VAdt):
        ex.notes.setdefault("ct_runs", {})[ok.vid] = code
    return ret


def unref_all(ex, v):
    for _ in range(4):
        if isinstance(v, VRef):
            v = ex.read(v.root, v.path)
    return v


def m_string_eq_lit(ex, callee, args, ret_ty, frame):
    """`ident == "_"`: identifiers of a template have known spellings"""
    a, b = unref_all(ex, args[0]), unref_all(ex, args[1])
    sa = a.tag.split(":", 1)[1] if isinstance(a, VOpaque) and (a.tag or "").startswith("name:") else None
    sb = getattr(b, "s", None)
    if sa is None or not isinstance(sb, str):
        return models.NOT_HANDLED
    return VBool(sa == sb)


def m_step_by(ex, callee, args, ret_ty, frame):
    """Range<usize>::step_by(n) with concrete bounds: the indices, eagerly"""
    r, n = args[0], args[1].concrete()
    a, b = r.fields[0].concrete(), r.fields[1].concrete()
    if a is None or b is None or not n:
        raise engine.Unsupported("step_by over a symbolic range")
    items = [VInt(z3.BitVecVal(k, 64), False) for k in range(a, b, n)]
    return VIter(VSeq("usize", len(items), items, ex.new_vid()), 0, None, "owned")


def m_map_into_value(ex, callee, args, ret_ty, frame):
    """<HashMap<String, CelValue> as Into<CelValue>>::into: the map value holding these entries"""
    m = args[0]
    if not isinstance(m, VMap):
        return models.NOT_HANDLED
    idx = ex.P.types.variant_index("CelValue", "Map")
    return VAdt("CelValue", idx, {idx: [m]}, ex.new_vid())


def m_get_type_none(ex, callee, args, ret_ty, frame):
    """`bindings.get_type(name)` in a match pattern: the identifiers of the templates are not type
    names (type patterns are outside the templates)"""
    return models.mk_option(ex, norm_ty(ret_ty) if ret_ty else "Option")


GRAMMAR_CFG = dict(TP.PARSE_CFG)
GRAMMAR_CFG["loop_bound"] = 160
GRAMMAR_CFG["models"] = [
    (r"^<dyn Tokenizer as Tokenizer>::peek$", m_peek), (r"^<dyn Tokenizer as Tokenizer>::next$", m_next), (r"^StringTokenizer::(<.*>::)?with_input$", m_with_input),
] + [m for m in TP.PARSE_CFG["models"] if m[1] not in (TP.m_value_op, TP.m_location, TP.m_peek, TP.m_next) and "is_truthy" not in m[0]] + [
    (r"^<dyn Tokenizer as Tokenizer>::location$", m_location),
    (r"^<Range<usize> as Iterator>::step_by$", m_step_by), (r"^<HashMap<String, CelValue> as Into<CelValue>>::into$", m_map_into_value),
    (r"^<String as PartialEq<&?str>>::eq$", m_string_eq_lit), (r"^BindContext::(<.*>::)?get_type$", m_get_type_none),
    (r"^(CelValue::(or|and|lt|le|gt|ge|neq|in_|index|access)|<CelValue as (Add|Sub|Mul|Div|Rem|Not|Neg|CelValueDyn)>::(add|sub|mul|div|rem|not|neg|eq|access))$", m_fold_op),
    (r"is_truthy$", m_is_truthy),
    (r"^Interpreter::(<.*>::)?empty$", m_interp_empty), (r"^Interpreter::(<.*>::)?add_bindings$", m_interp_add_bindings), (r"^Interpreter::(<.*>::)?run_raw$", m_interp_run_raw),
] + list(__import__("t_compile").CFG["models"])


# ----------------------------------------------------------------------------- reference evaluation
class Halt(Exception):
    pass


class Machine:
    """reference evaluation context shared by the tree evaluator and the emitted-code run:
    variables denote arbitrary run-time values with uninterpreted failure/truthiness"""

    def __init__(self, ex, A, toks):
        self.ex, self.A, self.toks = ex, A, toks
        self.reads = []

    def var(self, name):
        self.reads.append(name)
        return ("var", name)

    def fails(self, term):
        return self.A.ask(fails_of(self.ex, term))

    def truthy(self, term):
        return self.A.ask(truthy_of(self.ex, term))

    def test(self, term):
        """TEST: a failure stays, anything else becomes the bool of its truthiness"""
        if self.fails(term):
            return term
        return ("bool", z3.BoolVal(self.truthy(term)))


def eval_tree(M, n):
    """CEL semantics of the reference tree -> value term (reads recorded in M.reads)"""
    k = n["k"]
    if k == "ident":
        return M.var(n.name)
    if k == "lit":
        return ("lit", n.tok)
    if k == "paren":
        return eval_tree(M, n.x)
    if k in ("not", "neg"):
        t = eval_tree(M, n.x)
        for _ in range(n.n):
            t = ("Not" if k == "not" else "Neg", t)
        return t
    if k == "bin" and n.op not in ("Or", "And"):
        a = eval_tree(M, n.l)
        b = eval_tree(M, n.r)
        return (n.op, a, b)
    if k == "bin" and n.op == "Or":
        a = M.test(eval_tree(M, n.l))
        if a[0] == "bool" and z3.is_true(a[1]):
            return a                      # decided: the right operand is not evaluated
        b = eval_tree(M, n.r)
        return ("Or", a, b)
    if k == "bin" and n.op == "And":
        a = M.test(eval_tree(M, n.l))
        if a[0] != "bool" or z3.is_false(a[1]):
            return a                      # a falsy or failing left operand decides
        b = eval_tree(M, n.r)
        return ("And", a, b)
    if k == "cond":
        c = M.test(eval_tree(M, n.c))
        if c[0] != "bool":
            return c                      # a failing condition is the result
        return eval_tree(M, n.x if z3.is_true(c[1]) else n.y)
    if k == "fstr":
        # every segment goes through string(..): a text as it is, an embedded expression handed over unevaluated
        segs = tuple(("call", ("fn", "string"), None, ((("text", b),) if a == "lit" else (thunk(M, b),))) for a, b in n.segs)
        return ("fmt", segs)
    if k == "match":
        sv = eval_tree(M, n.s)
        for c in n.cases:
            if c.pat["k"] == "any":
                return eval_tree(M, c.arm)
            r = (c.pat.op, sv, eval_tree(M, c.pat.e))
            # a comparison yields a bool or fails; a failing comparison is not a match
            if not M.fails(r) and M.truthy(r):
                return eval_tree(M, c.arm)
        return ("null",)
    if k == "list":
        return ("list", tuple(eval_tree(M, a) for a in n["items"]))
    if k == "map":
        return ("map", tuple((eval_tree(M, a), eval_tree(M, b)) for a, b in n.inits))
    if k == "member":
        t = eval_tree(M, n.prim) if not (n.elems[0]["k"] == "call" and n.prim["k"] == "ident") else None
        for i, e in enumerate(n.elems):
            if e["k"] == "access":
                if i + 1 < len(n.elems) and n.elems[i + 1]["k"] == "call":
                    continue              # method name: consumed by the call that follows
                t = ("Access", t, e.name)
            elif e["k"] == "index":
                t = ("Index", t, eval_tree(M, e.e))
            elif e["k"] == "call":
                args = tuple(thunk(M, a) for a in e.args)
                if i == 0:
                    t = ("call", ("fn", n.prim.name), None, args)
                else:
                    t = ("call", ("fn", n.elems[i - 1].name), t, args)
        return t
    raise Halt(f"reference evaluator: node {k}")


def thunk(M, n):
    """a call argument is handed over unevaluated: its value and reads, were it evaluated"""
    sub = Machine(M.ex, M.A, M.toks)
    t = eval_tree(sub, n)
    return ("thunk", t, tuple(sorted(map(str, sub.reads))))


def run_code(M, points, const_term):
    """execute emitted code (labels in place) on the reference stack machine of t_vm's semantics"""
    labels = {p[1]: i for i, p in enumerate(points) if p[0] == "label"}
    ex = M.ex
    # relative jumps (a distance instead of a label; distances count instructions only)
    if any(p[0] == "op" and p[1] in ("Jmp", "JmpCond") for p in points):
        pos_of, k = {}, 0
        for i, p in enumerate(points):
            if p[0] != "label":
                pos_of[k] = i
                k += 1
        pos_of[k] = len(points)
        pts, k = [], 0
        for i, p in enumerate(points):
            if p[0] == "op" and p[1] in ("Jmp", "JmpCond"):
                d = p[2][-1].concrete()
                bits = p[2][-1].bv.size()
                d = d - (1 << bits) if d >= 1 << (bits - 1) else d
                if k + 1 + d not in pos_of:
                    raise Halt("a relative jump leaves the block")
                labels[("rel", i)] = pos_of[k + 1 + d]
                when = (variant(ex, p[2][0]) == "True") if p[1] == "JmpCond" else None
                pts.append(("jmp", ("rel", i)) if p[1] == "Jmp" else ("jmpcond", when, ("rel", i)))
            else:
                pts.append(p)
            if p[0] != "label":
                k += 1
        points = pts
    stack, pc, steps = [], 0, 0

    def pop():
        if not stack:
            raise Halt("pop from an empty stack")
        v = stack.pop()
        if v[0] == "identval":
            return M.var(v[1])
        return v
    while pc < len(points):
        steps += 1
        if steps > 400:
            raise Halt("step budget")
        p = points[pc]
        pc += 1
        if p[0] == "label":
            continue
        if p[0] == "jmp":
            pc = labels[p[1]]
            continue
        if p[0] == "jmpcond":
            v = pop()
            when = p[1]
            if v[0] == "bool":
                if M.A.ask(v[1]) == when:
                    pc = labels[p[2]]
            elif v[0] in ("Eq", "Ne", "Lt", "Le", "Gt", "Ge") and not M.fails(v):
                # a relation yields a bool or a failure (decided for the value operations by the
                # Kani harnesses of C04); its truth is the term's truthiness
                if M.truthy(v) == when:
                    pc = labels[p[2]]
            elif M.fails(v):
                if not when:
                    pc = labels[p[2]]
            else:
                return ("vm-error", "conditional jump on a value that is neither a bool nor a failure", v)
            continue
        name, f = p[1], p[2]
        if name == "Push":
            stack.append(const_term(f[0]))
        elif name == "Pop":
            pop()
        elif name == "Dup":
            v = pop()
            stack += [v, v]
        elif name == "Test":
            stack.append(M.test(pop()))
        elif name in ("Not", "Neg"):
            v = pop()
            if name == "Not" and v[0] == "bool":
                stack.append(("bool", z3.simplify(z3.Not(v[1]))))
            else:
                stack.append((name, v))
        elif name in ("Or", "And", "Add", "Sub", "Mul", "Div", "Mod", "Lt", "Le", "Eq", "Ne", "Ge", "Gt", "In", "Index"):
            b = pop()
            a = pop()
            stack.append((name, a, b))
        elif name == "Access":
            if not stack:
                raise Halt("pop from an empty stack")
            fld = stack.pop()
            o = pop()
            if fld[0] != "identval":
                return ("vm-error", "field name is not an identifier", fld)
            stack.append(("Access", o, fld[1]))
        elif name == "MkList":
            n = f[0].concrete()
            items = [pop() for _ in range(n)]
            items.reverse()
            stack.append(("list", tuple(items)))
        elif name == "MkDict":
            n = f[0].concrete()
            pairs = []
            for _ in range(n):
                key = pop()
                val = pop()
                pairs.append((key, val))
            pairs.reverse()
            stack.append(("map", tuple(pairs)))
        elif name == "FmtString":
            n = f[0].concrete()
            segs = [pop() for _ in range(n)]
            segs.reverse()
            stack.append(("fmt", tuple(segs)))
        elif name == "Call":
            n = f[0].concrete()
            if not stack:
                raise Halt("pop from an empty stack")
            callee = stack.pop()
            args = []
            for _ in range(n):
                if not stack:
                    raise Halt("pop from an empty stack")
                args.append(stack.pop())
            if callee[0] == "identval":
                stack.append(("call", ("fn", ex.notes.get("spell", {}).get(callee[1], callee[1])), None, tuple(args)))
            elif callee[0] == "Access":
                stack.append(("call", ("fn", callee[2]), callee[1], tuple(args)))
            else:
                return ("vm-error", "callee is neither a name nor a member", callee)
        else:
            raise Halt("instruction outside the reference machine: " + name)
    if len(stack) != 1:
        raise Halt(f"{len(stack)} values left on the stack")
    v = stack.pop()
    if v[0] == "identval":
        return M.var(v[1])
    return v


def resolved_points(ex, code):
    """CelByteCode (relative jumps) -> points with labels, for the reference machine"""
    seq = code.fields[0] if isinstance(code, VStruct) else code
    items = seq.items
    out, targets = [], {}
    for i, b in enumerate(items):
        k = variant(ex, b)
        f = b.fields.get(b.discr, [])
        if k == "Jmp":
            t = i + 1 + f[0].concrete_signed() if hasattr(f[0], "concrete_signed") else i + 1 + signed(f[0])
            targets[t] = True
            out.append(("jmp", ("L", t)))
        elif k == "JmpCond":
            fs = dict(zip([fn for fn, _ in ex.P.types.enums["ByteCode"][b.discr][1]], f))
            t = i + 1 + signed(fs["dist"])
            targets[t] = True
            out.append(("jmpcond", variant(ex, fs["when"]) == "True", ("L", t)))
        else:
            out.append(("op", k, f))
    res = []
    for i, p in enumerate(out):
        if i in targets:
            res.append(("label", ("L", i)))
        res.append(p)
    if len(out) in targets:
        res.append(("label", ("L", len(out))))
    return res


def signed(v):
    n = v.concrete()
    bits = v.bv.size()
    return n - (1 << bits) if n >= 1 << (bits - 1) else n


def make_const_term(ex, M):
    def const_term(v):
        if isinstance(v, VAdt) and isinstance(v.discr, int) and variant(ex, v) == "ByteCode":
            code = v.fields[v.discr][0]
            sub = Machine(ex, M.A, M.toks)
            t = run_code(sub, resolved_points(ex, code), make_const_term(ex, sub))
            return ("thunk", t, tuple(sorted(map(str, sub.reads))))
        return expand(term_of_value(ex, v))

    def expand(t):
        # ("ct", vid): a call the compiler evaluated; it stands for what the same code yields when
        # run (that the compile-time run agrees with the run-time one is outside this check)
        if isinstance(t, tuple) and len(t) == 2 and t[0] == "ct":
            sub = Machine(ex, M.A, M.toks)
            r = run_code(sub, resolved_points(ex, ex.notes["ct_runs"][t[1]]), make_const_term(ex, sub))
            M.reads += sub.reads
            return r
        if isinstance(t, tuple) and t and t[0] not in ("bool", "lit", "var"):
            return tuple(expand(x) if isinstance(x, tuple) else x for x in t)
        return t
    return const_term


# ----------------------------------------------------------------------------- the check
def scenario_of(ex):
    def concrete(model, toks):
        out = []
        for tw in toks:
            t = tw.fields[0]
            names = [v[0] for v in ex.adt_variants(t.ty)]
            idx = t.discr if isinstance(t.discr, int) else model.eval(t.discr, model_completion=True).as_long()
            k = names[idx]
            f = t.fields.get(idx) or []
            if k == "Ident":
                out.append(("Ident", f[0].tag.split(":", 1)[1]))
            elif k == "IntLit":
                out.append(("IntLit", model.eval(f[0].bv, model_completion=True).as_long()))
            elif k == "StringLit":
                out.append(("StringLit", "k"))      # every string literal of a template may spell the same text
            elif k == "FStringLit":
                segs = []
                for sg in f[0].items:
                    sv = sg.fields[sg.discr][0]
                    if variant(ex, sg) == "Lit":
                        segs.append(("lit", sv.tag.split(":", 1)[1]))
                    else:
                        segs.append(("expr", concrete(model, ex.notes["nested"][int(sv.tag.split(":")[1])]["toks"])))
                out.append(("FStringLit", segs))
            else:
                out.append((k,))
        return out

    def build(model):
        out = concrete(model, ex.notes["toks"])
        lay = ex.notes.get("layout")
        sc = {"kind": "grammar", "tokens": out}
        if lay is not None:
            sc["layout"] = [list(lay(i)[:2]) for i in range(len(out))]
        return sc
    return build


def prefer_literals(ex):
    """among the counterexamples prefer small, distinct, non-zero literal values (a concrete instance
    that shows the difference natively: `- - 0` would hide a lost negation)"""
    def prefer():
        out = []
        il = ex.P.types.variant_index("Token", "IntLit")
        for i, tw in enumerate(ex.notes["toks"]):
            f = tw.fields[0].fields.get(il)
            if f:
                out.append(f[0].bv == 3 + 2 * i)
        return out
    return prefer


def check_grammar(res, V):
    ex = res.ex
    sc = scenario_of(ex)
    _check = V.check
    pl = prefer_literals(ex)

    class VV:
        witness = V.witness
        inconclusive = V.inconclusive

        @staticmethod
        def check(*a, **kw):
            kw.setdefault("prefer", pl)
            return _check(*a, **kw)
    V = VV
    if res.outcome == "panic":
        V.check(ex, "the parser reports an error instead of panicking", False, detail=res.msg, scenario=sc)
        return
    if res.outcome != "return":
        V.inconclusive.append(f"{res.outcome}: {res.msg}")
        return
    parts = result_parts(ex, res.ret)
    consumed = ex.notes["pos"]

    def ref(A):
        toks = token_facts(ex, A)
        want, used = ref_parse(toks, ident_names(ex))
        out = dict(toks=toks, want=want, used=used)
        if want is None or parts is None:
            return out
        cprog = parts[0]
        code = code_points(ex, cprog)
        M1 = Machine(ex, A, toks)
        try:
            out["ref_value"] = eval_tree(M1, want)
        except Halt as h:
            out["ref_halt"] = str(h)
            return out
        out["ref_reads"] = sorted(map(str, M1.reads))
        M2 = Machine(ex, A, toks)
        try:
            if code[0] == "const":
                out["got_value"] = make_const_term(ex, M2)(code[1])
            else:
                out["got_value"] = run_code(M2, code[1], make_const_term(ex, M2))
        except Halt as h:
            out["got_halt"] = str(h)
        out["got_reads"] = sorted(map(str, M2.reads))
        return out

    for assumed, o in run_reference(ex, ref):
        toks, want = o["toks"], o["want"]
        text = " ".join(k if k not in ("Ident", "IntLit") else ("id" if k == "Ident" else "N") + str(i) for i, (k, _) in enumerate(toks))
        if want is None:
            V.witness("rejected")
            V.check(ex, "a token sequence the grammar rejects is a syntax error", parts is None, assumed, detail=lambda: f"`{text}` ({o['used']}) was accepted", scenario=sc)
            continue
        V.witness("folded" if parts is not None and code_points(ex, parts[0])[0] == "const" else "code")
        if parts is None:
            V.check(ex, "a well-formed expression parses", False, assumed, detail=lambda: f"`{text}` -> {res.ret!r}", scenario=sc)
            continue
        cprog, ast = parts
        V.check(ex, "the parser consumes exactly the tokens of the expression", consumed == o["used"], assumed, detail=lambda: f"`{text}`: consumed {consumed}, the expression has {o['used']}", scenario=sc)

        def tok_of_payload(p):
            return literal_token(ex, p)
        got = real_tree(ex, ast, tok_of_payload)
        faults = {"shape": [], "span": [], "argorder": []}
        compare(got, want, faults, cols=layout_cols(ex))
        V.check(ex, "the syntax tree is the one the grammar defines (precedence, association, grouping, operand order)", not faults["shape"], assumed,
                detail=lambda: f"`{text}`: grammar {show(want)}; {faults['shape'][:3]}", scenario=sc)
        V.check(ex, "call arguments appear in the tree in source order", not faults["argorder"], assumed, detail=lambda: f"`{text}`: {faults['argorder'][:2]}", scenario=sc)
        V.check(ex, "every syntax-tree node spans exactly its own tokens", not faults["span"], assumed, detail=lambda: f"`{text}`: {faults['span'][:3]}", scenario=sc)
        # C17
        params = TP.params_of(cprog)
        must = set(variable_idents(want, []))
        def idents_of(ts):
            out = set()
            for k, p in ts:
                if k == "Ident":
                    out.add(p)
                elif k == "FStringLit":
                    for sk, body in p:
                        if sk == "expr":
                            out |= idents_of(body)
            return out
        allid = idents_of(toks)
        V.check(ex, "every identifier in variable position is a reported parameter", params is not None and must <= set(params), assumed,
                detail=lambda: f"`{text}`: reported {params}, variables {sorted(must)}", scenario=sc)
        V.check(ex, "every reported parameter is an identifier of the source", params is not None and set(params) <= allid, assumed,
                detail=lambda: f"`{text}`: reported {params}, identifiers {sorted(allid)}", scenario=sc)
        # C10
        code = code_points(ex, cprog)
        if code[0] == "code":
            fault = verify_block(code[1])
            V.check(ex, "emitted block is well-formed (labels, stack heights, one result)", fault is None, assumed, detail=lambda: f"`{text}`: {fault}: {code[1]}", scenario=sc)
        # semantics
        if "ref_halt" in o:
            V.inconclusive.append(o["ref_halt"])
            continue
        if "got_halt" in o:
            V.check(ex, "the emitted code runs on the reference machine", False, assumed, detail=lambda: f"`{text}`: {o['got_halt']}; code {code}", scenario=sc)
            continue
        same = str(o["got_value"]) == str(o["ref_value"])
        V.check(ex, "the compiled form (folded or emitted) evaluates to the value CEL's semantics give the tree", same, assumed,
                detail=lambda: f"`{text}`: compiled form yields {o['got_value']}, semantics {o['ref_value']}; code {code}", scenario=sc)
        V.check(ex, "the compiled form reads exactly the variables the semantics evaluate", o["got_reads"] == o["ref_reads"], assumed,
                detail=lambda: f"`{text}`: reads {o['got_reads']}, semantics {o['ref_reads']}; code {code}", scenario=sc)


def tgt(name, items, what, props=("C02", "C09", "C17", "C18", "C10", "C05", "C01"), tier="quick", max_paths=20000, layout=None):
    return dict(name=name, props=list(props), func=entry, cfg=GRAMMAR_CFG, make_args=TP.make_args_for(template(*items, layout=layout)), check=check_grammar, max_paths=max_paths,
                what=what, bounds={"tokens": str(len(items))}, tier=tier)


ARITH = ("Add", "Minus", "Multiply", "Divide", "Mod")
REPS = ("OrOr", "AndAnd", "LessThan", "In", "Add", "Minus", "Multiply", "Mod")

TARGETS = [
    tgt("gram_atoms2", ["@a", tuple(BINARY_TOKENS), "@b"], "`A op B`, each operand a variable or an integer literal, every binary operator: folded and emitted forms against the semantics"),
    tgt("gram_atoms3", ["@a", ("Add", "Multiply", "LessThan", "AndAnd"), "@b", ("Minus", "Mod", "EqualEqual", "OrOr"), "@c"],
        "`A op1 B op2 C` over variables/literals: grouping, partial folding (left group folded, right operand run-time and the reverse)"),
    tgt("gram_atoms3_all", ["@a", ARITH + ("LessThan", "OrOr", "AndAnd"), "@b", ARITH + ("EqualEqual", "OrOr", "AndAnd"), "@c"],
        "`A op1 B op2 C` over variables/literals, 8 x 8 operators", tier="thorough"),
    tgt("gram_chain4", ["a", tuple(REPS), "b", tuple(REPS), "c", tuple(REPS), "d"], "`a op1 b op2 c op3 d`: every triple of 8 operators covering all precedence levels", tier="thorough"),
    tgt("gram_unary", [("Not", "Minus"), ("Not", "Minus", "LParen"), "@a", tuple(BINARY_TOKENS), "b"],
        "`!!a op b`, `--a op b`, `!(a op b` ...: prefix runs bind tighter than every binary operator, mixed runs and unbalanced parentheses are rejected"),
    tgt("gram_unary_rhs", ["a", ("Add", "Minus", "Multiply", "LessThan", "AndAnd"), ("Not", "Minus"), ("Not", "Minus"), "@b"], "`a op !!b`, `a - --b`, `a * -!b` (rejected)"),
    tgt("gram_cond_nest", ["@a", "Question", "b", "Colon", "@c", "Question", "d", "Colon", "e"], "`a ? b : c ? d : e` nests to the right in its else branch; constant conditions fold to the chosen branch"),
    tgt("gram_cond_or", ["a", ("OrOr", "AndAnd", "Add"), "b", "Question", "c", ("OrOr", "AndAnd", "Add", "Question"), "d", "Colon", "e"],
        "`a || b ? c && d : e`: ?: binds loosest; a conditional in the true branch needs parentheses"),
    tgt("gram_cond_else", ["a", "Question", "b", "Colon", "c", ("OrOr", "AndAnd", "Add", "LessThan"), "d"], "`a ? b : c || d`: the else branch extends to the right"),
    tgt("gram_member", ["a", "Dot", "b", tuple(BINARY_TOKENS), "c", "Dot", "d"],
        "`a.b op c.d`: member access binds tighter than every binary operator; field names are not variables"),
    tgt("gram_index", ["a", "LBracket", "@b", ("Add", "OrOr"), "c", "RBracket", "Dot", "d"],
        "`a[b op c].d`: the index is a full expression; postfix operators chain left to right"),
    tgt("gram_neg_member", [("Not", "Minus"), "a", "Dot", "b", "LBracket", "@c", "RBracket"], "`-a.b[c]`: postfix chains bind tighter than the prefix operators"),
    tgt("gram_list", ["LBracket", "@a", "Comma", "b", ("Add", "OrOr"), "@c", ("Comma", "RBracket"), "RBracket"], "`[a, b op c]`, with and without a trailing comma; element order"),
    tgt("gram_map", ["LBrace", "a", "Colon", "b", "Comma", "c", "Colon", "d", ("Add", "OrOr"), "e", "RBrace"], "`{a: b, c: d op e}`: keys and values in source order"),
    tgt("gram_call", ["f", "LParen", "@a", "Comma", "b", ("Add", "OrOr"), "c", "RParen"], "`f(a, b op c)`: arguments in source order, each a full expression handed over unevaluated; variables in arguments are parameters"),
    tgt("gram_method", ["a", "Dot", "f", "LParen", "b", "Comma", "c", "RParen", ("Dot", "Add"), "d"], "`a.f(b, c).d`, `a.f(b, c) + d`: receiver, method name, arguments in source order"),
    tgt("gram_call_chain", ["f", "LParen", "a", "RParen", "Dot", "g", "LParen", "b", "Comma", "c", "RParen"], "`f(a).g(b, c)`: calls chain left to right"),
    tgt("gram_lines", ["a", ("Add", "OrOr", "LessThan"), "b", ("Multiply", "Question"), "c", ("Colon", "Add"), "d", "LBracket", "e", "RBracket"],
        "`a + b * c + d[e]`, `a || b ? c : d[e]` ... with every token on its own line, each further left than the one before: spans are ordered by line first", layout=stairs),
    tgt("gram_lazy_fail", ["@a", ("OrOr", "AndAnd"), "#", ("Divide", "Mod", "LessThan"), "#"], "`a || 1 / 0`, `1 && 2 % 0`: a constant operand that may fail is still subject to the laziness of `||` and `&&`"),
    tgt("gram_fail_lazy", ["#", ("Divide", "Mod"), "#", ("OrOr", "AndAnd"), "@a"],
        "`1 / 0 || a`: a failing constant on the left"),
    tgt("gram_fail_cond", ["#", "Divide", "#", "Question", "@a", "Colon", "b"], "`1 / 0 ? a : b`: a constant condition that may fail"),
    tgt("gram_map_const", ["LBrace", "$", "Colon", "@a", "Comma", "$", "Colon", "#", ("Comma", "RBrace"), "RBrace"],
        "`{'k': a, 'l': 2}` with constant and variable values: the folded literal and the run-time MkDict give the same entries in source order"),
    tgt("gram_map_field", ["LBrace", "$", "Colon", "@a", "RBrace", ("Dot", "Add"), "b"], "`{'k': 1}.b`, `{'k': a} + b`: a field access on a constant object is folded only when the field exists"),
    tgt("gram_fstring", [{"fstring": [("expr", ["a", ("Add", "OrOr"), "@b"]), ("lit", " and "), ("expr", ["c"])]}, ("Add", "EqualEqual"), "d"],
        "`f'{a op b} and {c}' + d`: every segment goes through string(), embedded expressions are compiled from their own text and handed over unevaluated, FmtString joins the segments in source order; their variables are parameters"),
    tgt("gram_match", ["Match", "s", "LBrace", "Case", ("EqualEqual", "NotEqual", "GreaterThan", "GreaterEqual", "LessThan", "LessEqual"), "p", "Colon", "x", "Comma", "Case", "_", "Colon", "y", "RBrace"],
        "`match s { case OP p: x, case _: y }` for the six pattern operators: the scrutinee is evaluated once, only the arm of the first matching case runs"),
    tgt("gram_match_eq", ["Match", "s", "LBrace", "Case", "@p", "Colon", "x", "Comma", "Case", "q", ("Add", "OrOr"), "r", "Colon", "y", ("Comma", "RBrace"), "RBrace"],
        "`match s { case p: x, case q op r: y, }`: bare patterns compare for equality, patterns are full `||` expressions, a trailing comma is allowed, null when no case matches"),
    tgt("gram_match_nocomma", ["Match", "s", "Add", "t", "LBrace", "Case", "p", "Colon", "x", ("Case", "Comma"), ("Case", "RBrace"), "q", "Colon", "y", "RBrace"],
        "`match s + t { case p: x case q: y }`: cases must be separated by a comma"),
    tgt("gram_cond_match", ["c", "Question", "a", "Colon", "Match", "y", "LBrace", "Case", "p", "Colon", "b", "Comma", "Case", "_", "Colon", "d", "RBrace"],
        "`c ? a : match y { case p: b, case _: d }`: a match block as the else branch of a conditional (jumps across a block that was assembled with push())"),
    tgt("gram_paren3", ["LParen", "@a", ("OrOr", "LessThan", "Minus", "Mod"), "@b", "RParen", ("AndAnd", "In", "Add", "Multiply"), "c"], "`(a op1 b) op2 c`: parentheses on the left operand"),
    tgt("gram_paren3_all", ["LParen", "@a", tuple(REPS), "@b", "RParen", tuple(REPS), "c"], "`(a op1 b) op2 c`, 8 x 8 operators", tier="thorough"),
]

# which property checks run which templates (every template decides all its obligations; this only
# keeps each property's check to the templates that exercise its subject)
for _t in TARGETS:
    lazy = any(k in _t["name"] for k in ("atoms", "cond", "paren3", "chain4", "list", "map", "match", "lazy", "fail"))
    _t["props"] = ["C02", "C09", "C17", "C18", "C10"] + (["C05"] if lazy else []) + (["C01"] if _t["name"] in ("gram_atoms2", "gram_call", "gram_unary") else []) + (["C14"] if _t["name"] == "gram_fstring" else []) + (["C06"] if _t["name"] in ("gram_list", "gram_map", "gram_map_const", "gram_map_field", "gram_index") else [])
