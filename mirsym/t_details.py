"""Target: filtering the parameter list against a binding set (C17, last sentence).

`IdentFilterIter::next` and `BindContext::is_bound` are executed on a symbolic sequence of 0..=3
names; which names the binding set holds as variables / functions / macros is arbitrary
(`HashMap::contains_key` is an arbitrary predicate per map and name).  One call of `next`
must skip exactly the names that are bound in one of the three ways and return the first that
is not, or None at the end; by induction the filtered list is exactly the unbound names in
order.  That the compiler *reports* every name (the body of C17) is outside."""
import z3

import engine
import models
from engine import VAdt, VBool, VInt, VOpaque, VRef, VSeq, VStruct, VIter, Event, base_ty, vcopy
from specutil import is_variant, run_reference, vid_of

N = 3


def m_contains(ex, callee, args, ret_ty, frame):
    which = "param" if "CelValue>" in callee.split("::contains_key")[0] and "dyn" not in callee else ("macro" if "Interpreter" in callee else "func")
    # `params` and `types` are both HashMap<String, CelValue>: tell them apart by the field of the
    # BindContext the receiver points into (only variables, functions and macros count as bound)
    recv = args[0]
    if which == "param" and isinstance(recv, VRef) and recv.path:
        fields = [fn for fn, _ in ex.P.types.structs["BindContext"]]
        step = next((st for st in reversed(recv.path) if st[0] == "f"), None)
        if step is not None and step[2] < len(fields) and fields[step[2]] != "params":
            which = {"types": "type"}.get(fields[step[2]], fields[step[2]])
    name = vid_of(ex, args[1])
    key = ("bound", which, name)
    if key not in ex.lazy:
        ex.lazy[key] = z3.Bool(f"{which}@{name}")
    ex.trace.append(Event("contains", [which, name], None))
    return VBool(ex.lazy[key])


def m_dyn_next(ex, callee, args, ret_ty, frame):
    it = models.deref(ex, args[0])
    return models.m_iter_next(ex, callee, [VRef(ex.heap(it, "it")) if not isinstance(args[0], VRef) else args[0]], ret_ty, frame)


def m_to_owned(ex, callee, args, ret_ty, frame):
    t = models.deref(ex, args[0])
    return VOpaque("String", getattr(t, "vid", ex.new_vid()), "owned copy")


CFG = dict(inline=[], inline_default=True, keep_uninterpreted=[], opaque_types=("HashMap", "String", "str"),
           models=[(r"^HashMap(::)?(<.*>)?::contains_key", m_contains), (r"^<dyn Iterator<Item = &str> as Iterator>::next$", m_dyn_next),
                   (r"^<str as ToOwned>::to_owned$", m_to_owned)],
           seq_bound=N, loop_bound=N + 3)


def make_args(ex, func):
    names = ex.fresh_seq("&str", "names")
    bindings = VRef(ex.heap(ex.fresh("BindContext", "bindings"), "bindings"))
    it = VIter(names, 0, None, "owned")
    me = VStruct("IdentFilterIter", [bindings, VRef(ex.heap(it, "inner"), (), True)], ex.new_vid())
    ex.notes.update(names=names)
    return [VRef(ex.heap(me, "self"), (), True)]


def scen(ex):
    def build(model):
        names = ex.notes["names"]
        n = names.length if isinstance(names.length, int) else model.eval(names.length, model_completion=True).as_long()
        req = {"names": [], "params": [], "funcs": [], "macros": []}
        for i in range(n):
            ex.seq_item(names, i)
            nv = vid_of(ex, names.items[i])
            nm = f"zq{i}"
            tb = ex.lazy.get(("bound", "type", nv))
            if tb is not None and z3.is_true(model.eval(tb, model_completion=True)):
                nm = ["null_type", "float", "double"][i]      # the name of a built-in type (neither variable, function nor macro)
            req["names"].append(nm)
            for which, key in (("param", "params"), ("func", "funcs"), ("macro", "macros")):
                b = ex.lazy.get(("bound", which, nv))
                if b is not None and z3.is_true(model.eval(b, model_completion=True)):
                    req[key].append(nm)
        bound = set(req["params"]) | set(req["funcs"]) | set(req["macros"])
        return {"kind": "details", "request": req, "expected": sorted(x for x in req["names"] if x not in bound)}
    return build


def check(res, V):
    ex = res.ex
    _orig = V.check
    _sc = scen(ex)

    def vcheck(*a, **kw):
        kw.setdefault("scenario", _sc)
        return _orig(*a, **kw)
    V = type("VV", (), {"check": staticmethod(vcheck), "witness": V.witness, "inconclusive": V.inconclusive})
    if res.outcome != "return":
        (V.check(ex, "no panic", False, detail=res.msg) if res.outcome == "panic" else V.inconclusive.append(f"{res.outcome}: {res.msg}"))
        return
    names = ex.notes["names"]

    def ref(A):
        n = None
        for k in range(N + 1):
            if A.ask(names.length == k):
                n = k
                break
        for i in range(n):
            ex.seq_item(names, i)
            nv = vid_of(ex, names.items[i])
            bound = False
            for which in ("param", "func", "macro"):
                key = ("bound", which, nv)
                if key not in ex.lazy:
                    ex.lazy[key] = z3.Bool(f"{which}@{nv}")
                if A.ask(ex.lazy[key]):
                    bound = True
                    break
            if not bound:
                return ("some", nv)
        return ("none",)
    ret = res.ret
    for assumed, exp in run_reference(ex, ref):
        V.witness(exp[0])
        if exp[0] == "none":
            V.check(ex, "None when every remaining name is bound", isinstance(ret.discr, int) and ret.discr == 0, assumed, detail=lambda: repr(ret))
        else:
            ok = isinstance(ret.discr, int) and ret.discr == 1 and getattr(ret.fields[1][0], "vid", None) == exp[1]
            V.check(ex, "the first name that is not bound as variable, function or macro", ok, assumed, detail=lambda: f"expected name {exp[1]}, got {ret!r}")


def entry(P):
    c = [f for f in P.trait_impls.get(("IdentFilterIter", "Iterator", "next"), [])]
    if len(c) != 1:
        raise KeyError("IdentFilterIter::next")
    return c[0]


TARGETS = [dict(name="c17_filter_next", props=["C17"], func=entry, cfg=CFG, make_args=make_args, check=check,
                what="filtering the reported names against a binding set removes exactly the names bound as variables, functions or macros (one step of IdentFilterIter)",
                bounds={"names": f"0..={N}"})]
