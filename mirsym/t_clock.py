"""Target: nothing the compiler can evaluate while compiling reads the clock (property C09,
last sentence: `now()` and zero-argument `timestamp()` are evaluated at every execution and are
never frozen into the compiled program).

`check_for_const` runs every call on an interpreter that holds `BindContext::for_compile()`.
Step 1 executes the MIR of `for_compile()` (the tables are `const` items whose bodies are
executed too) and reads the function table and the type table it builds.  Step 2 executes every
callable of those tables - a function as `f(this, args)`, a type name through `construct_type`
unless a function of the same name shadows it (the VM looks functions up first) - with a
symbolic receiver and 0..=2 symbolic arguments of any kind, all rscel functions inlined from
their MIR, and demands that no feasible path calls a clock API (`Utc::now`, `Local::now`,
`SystemTime::now`, `Instant::now`).  The clock is the environment: it is never modelled, a call
to it is the violation.  A path that the executor cannot finish (an unmodelled std call that
writes through `&mut`) is reported per callable; the part of it that was executed is still
searched."""
import re
import z3

import engine
import models
from engine import VAdt, VFn, VOpaque, VRef, VSeq, VStruct, VMap, base_ty
from specutil import find_func, is_variant

CLOCK = re.compile(r"\b(Utc|Local|SystemTime|Instant|OffsetDateTime)(::<[^>]*>)?::now\b")
KINDS = ["Int", "UInt", "Float", "Bool", "String", "Bytes", "List", "Map", "Null", "TimeStamp", "Duration"]

TABLE_CFG = dict(inline=[], inline_default=True, keep_uninterpreted=[], opaque_types=("String",), models=[], seq_bound=3, loop_bound=400, max_call_depth=40, max_steps=4000000)
RUN_CFG = dict(inline=[], inline_default=True, keep_uninterpreted=[], opaque_types=("HashMap", "String", "CelBytes", "DateTime", "Duration", "Arc", "CelByteCode", "TimeDelta", "Regex"),
               models=[], seq_bound=2, loop_bound=6, max_call_depth=30, max_steps=400000)


def unref(ex, v):
    for _ in range(6):
        if isinstance(v, VRef):
            v = ex.read(v.root, v.path)
        else:
            break
    return v


def key_name(k):
    tag = getattr(k, "tag", None) or ""
    return tag.split(":", 1)[1] if ":" in tag else repr(k)


def tables_of(P):
    f = find_func(P, "for_compile", "BindContext")
    got = {}

    def on_path(res):
        got.setdefault("res", []).append(res)
    stats, used = engine.explore(P, TABLE_CFG, f, lambda ex: [], on_path, max_paths=4, time_budget=120)
    rs = [r for r in got.get("res", []) if r.outcome == "return"]
    if len(rs) != 1 or stats["unsupported"] or stats["bound"]:
        raise engine.Unsupported(f"for_compile() did not execute to one result: {stats}")
    ex, ctx = rs[0].ex, rs[0].ret
    fields = dict(zip([fn for fn, _ in P.types.structs["BindContext"]], ctx.fields))
    funcs, types = {}, []
    for k, v in fields["funcs"].entries:
        fn = unref(ex, v)
        funcs[key_name(k)] = fn.name if isinstance(fn, VFn) else None   # later insertions win
    for k, v in fields["types"].entries:
        types.append(key_name(k))
    return funcs, types, stats


def explore_callable(P, V, label, func, make_args, stats_all, used_all):
    found, unfinished = [], []

    def on_path(res):
        ex = res.ex
        hits = [e.name for e in ex.trace if CLOCK.search(e.name)]
        hits += [n for n in ex.used["havocked"] if CLOCK.search(n) and n not in hits]
        if hits:
            found.append((ex, hits))
        if res.outcome == "unsupported":
            unfinished.append(res.msg)
    try:
        stats, used = engine.explore(P, RUN_CFG, func, make_args, on_path, max_paths=600, time_budget=60)
    except Exception as e:  # an executor limitation on one callable does not hide the others
        V.witness(f"{label}: not executable ({type(e).__name__})")
        return [f"executor: {type(e).__name__}: {e}"], False
    for k in ("paths", "returned", "solver_calls", "solver_time", "unsupported", "bound"):
        stats_all[k] = stats_all.get(k, 0) + stats.get(k, 0)
    for k in used_all:
        used_all[k] |= used[k]
    V.witness(f"{label}: {stats['paths']} paths" + (f", {stats['unsupported']} unfinished" if stats["unsupported"] else ""))
    if found:
        ex, hits = found[0]
        nargs = ex.notes.get("nargs")
        V.check(ex, "a callable of the compile-time tables never reads the clock", False,
                detail=f"{label} with {nargs} argument(s) calls {hits[0]}", scenario=lambda m: {"kind": "clock", "call": label, "nargs": nargs})
    else:
        V.obligations += 1
        V.discharged += 1
    return unfinished, bool(stats.get("truncated"))


def fn_args(ex, func=None):
    this = ex.fresh("CelValue", "this")
    ex.assume(z3.Or([is_variant(ex, this, k) for k in KINDS]))
    nv = z3.BitVec(ex.fresh_name("nargs"), 64)
    n = ex.branch([(str(j), nv == j) for j in range(3)], "nargs")
    ex.notes["nargs"] = n
    args = []
    for i in range(n):
        a = ex.fresh("CelValue", f"a{i}")
        ex.assume(z3.Or([is_variant(ex, a, k) for k in KINDS]))
        args.append(a)
    return [this, VSeq("CelValue", n, args, ex.new_vid())]


def resolve_fn(P, path):
    """the Func a function-item path of a table names (`now_impl`, `matches::methods::dispatch`)"""
    if not path:
        return None
    last = path.split("::")[-1]
    cands = [f for f in P.free.get(last, []) if f.name == path or path.endswith("::" + f.name) or f.name.endswith("::" + path)]
    if len(cands) == 1:
        return cands[0]
    if not cands:
        try:
            return P.resolve(path)
        except Exception:
            return None
    # several dispatchers share a suffix (`methods::dispatch`): the longest common suffix wins
    def common(a, b):
        x, y = a.split("::")[::-1], b.split("::")[::-1]
        n = 0
        while n < min(len(x), len(y)) and x[n] == y[n]:
            n += 1
        return n
    cands.sort(key=lambda f: -common(f.name, path))
    if len(cands) > 1 and common(cands[0].name, path) == common(cands[1].name, path):
        return None
    return cands[0]


def special(P, t, V):
    funcs, types, st0 = tables_of(P)
    stats = {"paths": st0["paths"], "returned": st0["returned"], "solver_calls": 0, "solver_time": 0.0, "unsupported": 0, "bound": 0, "unsupported_msgs": []}
    used = {"inlined": set(), "modelled": set(), "havocked": set()}
    V.witness(f"compile-time tables: {len(funcs)} functions, {len(types)} types")
    notes = []
    for name, path in sorted(funcs.items()):
        f = resolve_fn(P, path)
        if f is None:
            V.inconclusive.append(f"function `{name}` ({path}) has no MIR in the dump")
            continue
        unfinished, trunc = explore_callable(P, V, f"{name}()", f, fn_args, stats, used)
        if unfinished or trunc:
            notes.append(f"{name}: {len(unfinished)} path(s) not finished ({(unfinished or ['path budget'])[0][:80]})")
    ct = find_func(P, "construct_type")
    for name in sorted(set(types)):
        if name in funcs:
            V.witness(f"type `{name}` is shadowed by a function while compiling")
            continue

        def type_args(ex, func, name=name):
            a = fn_args(ex, func)
            return [VOpaque("str", ex.new_vid(), "lit:" + name), a[1]]
        # construct_type matches on the name: drive the arm by running the constructor it selects
        impl = resolve_fn(P, {"float": "double"}.get(name, name) + "_type::methods::dispatch") if name != "null_type" else None
        if impl is None:
            continue
        unfinished, trunc = explore_callable(P, V, f"{name}() [type constructor]", impl, fn_args, stats, used)
        if unfinished or trunc:
            notes.append(f"type {name}: {len(unfinished)} path(s) not finished")
    stats["unsupported"] = 0          # unfinished paths are listed, their executed part was searched
    t["bounds"] = dict(t.get("bounds", {}), unfinished=notes[:60])
    return {"stats": stats, "used": used}


TARGETS = [dict(name="c09_clock", props=["C09"], special=special, cfg=RUN_CFG,
                what="every function and type constructor the compiler can call while folding (the tables of BindContext::for_compile, executed from MIR), with any receiver and 0..=2 arguments of any kind: no path reads the clock",
                bounds={"arguments": "0..=2, any of 11 kinds", "paths per callable": "600 / 60 s"})]
