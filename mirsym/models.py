"""Summaries of std functions whose bodies are not in rscel's MIR dump (generic std code).

Every entry here is a *modelling assumption* and is listed in the evidence of each run under
`modelled`. They describe containers and control-flow helpers by their documented behaviour;
no rscel function is modelled here (those are either inlined from MIR or havocked).
"""
import re
import z3

from engine import (VInt, VBool, VUnit, VStr, VFn, VTuple, VAdt, VStruct, VRef, VOpaque, VSeq, VIter, VMap, Event,
                    Unsupported, PathEnd, vcopy, norm_ty, base_ty, ty_args)
import mirparse as mp

NOT_HANDLED = object()


def mk_option(ex, ty, val=None):
    if val is None:
        return VAdt(ty or "Option", 0, {0: []}, ex.new_vid())
    return VAdt(ty or "Option", 1, {1: [val]}, ex.new_vid())


def mk_result(ex, ty, ok=None, err=None):
    if err is None:
        return VAdt(ty or "Result", 0, {0: [ok]}, ex.new_vid())
    return VAdt(ty or "Result", 1, {1: [err]}, ex.new_vid())


def deref(ex, r):
    if isinstance(r, VRef):
        return ex.read(r.root, r.path)
    return r


def adt_variant(ex, v, what):
    """decide the variant of an enum value (forks when symbolic) -> index"""
    if isinstance(v.discr, int):
        return v.discr
    n = len(ex.adt_variants(v.ty))
    i = ex.branch([(ex.adt_variants(v.ty)[k][0], v.discr == k) for k in range(n)], what)
    v.discr = i
    return i


# ---- Try / FromResidual / conversions ---------------------------------------------------
def m_try_branch(ex, callee, args, ret_ty, frame):
    v = args[0]
    if not isinstance(v, VAdt):
        return NOT_HANDLED
    b = v.base()
    i = adt_variant(ex, v, "Try::branch")
    rt = norm_ty(ret_ty) if ret_ty else "ControlFlow"
    if b == "Result":
        if i == 0:
            return VAdt(rt, 0, {0: [ex.adt_fields(v, 0)[0]]}, ex.new_vid())
        e = ex.adt_fields(v, 1)[0]
        return VAdt(rt, 1, {1: [VAdt("Result<Infallible, E>", 1, {1: [e]}, ex.new_vid())]}, ex.new_vid())
    if b == "Option":
        if i == 1:
            return VAdt(rt, 0, {0: [ex.adt_fields(v, 1)[0]]}, ex.new_vid())
        return VAdt(rt, 1, {1: [VAdt("Option<Infallible>", 0, {0: []}, ex.new_vid())]}, ex.new_vid())
    return NOT_HANDLED


def m_from_residual(ex, callee, args, ret_ty, frame):
    v = args[0]
    m = re.match(r"^<(.+) as FromResidual<(.+)>>::from_residual$", callee)
    if not m or not isinstance(v, VAdt):
        return NOT_HANDLED
    target, src = m.group(1), m.group(2)
    if base_ty(target) == "Result":
        e = ex.adt_fields(v, 1)[0]
        te, se = ty_args(target)[1], ty_args(src)[1]
        if te.replace(" ", "") != se.replace(" ", ""):
            f = ex.P.resolve(f"<{te} as From<{se}>>::from")
            if f is None:
                raise Unsupported(f"from_residual needs From<{se}> for {te}")
            e = ex.run_function(f, [e], 3)
        return VAdt(norm_ty(ret_ty or target), 1, {1: [e]}, ex.new_vid())
    if base_ty(target) == "Option":
        return VAdt(norm_ty(ret_ty or target), 0, {0: []}, ex.new_vid())
    return NOT_HANDLED


def m_map_err(ex, callee, args, ret_ty, frame):
    v = args[0]
    if not isinstance(v, VAdt):
        return NOT_HANDLED
    i = adt_variant(ex, v, "Result::map_err")
    rt = norm_ty(ret_ty) if ret_ty else "Result"
    if i == 0:
        return VAdt(rt, 0, {0: [ex.adt_fields(v, 0)[0]]}, ex.new_vid())
    e = ex.adt_fields(v, 1)[0]
    fn = args[1]
    if isinstance(fn, VFn):
        f = ex.P.resolve(fn.name)
        r = ex.run_function(f, [e], 3) if f is not None else ex.havoc(norm_ty(fn.name), [e], ty_args(rt)[1] if len(ty_args(rt)) > 1 else None)
    else:
        r = ex.call_closure(fn, [e])
        if r is None:
            return NOT_HANDLED
    return VAdt(rt, 1, {1: [r]}, ex.new_vid())


def m_ok_or_else(ex, callee, args, ret_ty, frame):
    v = args[0]
    if not isinstance(v, VAdt):
        return NOT_HANDLED
    i = adt_variant(ex, v, "ok_or_else")
    rt = norm_ty(ret_ty) if ret_ty else "Result"
    if i == 1:
        return VAdt(rt, 0, {0: [ex.adt_fields(v, 1)[0]]}, ex.new_vid())
    fn = args[1]
    if isinstance(fn, VFn):
        f = ex.P.resolve(fn.name)
        e = ex.run_function(f, [], 3) if f is not None else ex.havoc(norm_ty(fn.name), [], ty_args(rt)[1] if len(ty_args(rt)) > 1 else None)
    else:
        e = ex.call_closure(fn, [])
        if e is None:
            e = ex.havoc("closure(ok_or_else)", [], ty_args(rt)[1] if len(ty_args(rt)) > 1 else None)
    return VAdt(rt, 1, {1: [e]}, ex.new_vid())


def m_fn_call(ex, callee, args, ret_ty, frame):
    """<F as Fn/FnMut/FnOnce<(A, B)>>::call*(f, (a, b)) for a closure value whose MIR is in the dump"""
    clo = args[0]
    tup = args[1]
    r = ex.call_closure(clo, list(tup.items) if isinstance(tup, VTuple) else [tup])
    if r is None:
        return NOT_HANDLED
    return r


def m_int_try_into(ex, callee, args, ret_ty, frame):
    m = re.match(r"^<(\w+) as (?:TryInto<(\w+)>|TryFrom<(\w+)>)>::(try_into|try_from)$", callee)
    if not m or not isinstance(args[0], VInt):
        return NOT_HANDLED
    from engine import INT_TYPES
    if m.group(4) == "try_into":
        src, dst = m.group(1), m.group(2)
    else:
        src, dst = m.group(3), m.group(1)
    if src not in INT_TYPES or dst not in INT_TYPES:
        return NOT_HANDLED
    (sb, ss), (db, ds) = INT_TYPES[src], INT_TYPES[dst]
    x = args[0].bv
    W = max(sb, db) + 1
    wide = z3.SignExt(W - sb, x) if ss else z3.ZeroExt(W - sb, x)
    lo = -(1 << (db - 1)) if ds else 0
    hi = (1 << (db - 1)) - 1 if ds else (1 << db) - 1
    fits = z3.And(wide >= lo, wide <= hi)
    rt = norm_ty(ret_ty) if ret_ty else "Result"
    if ex.branch_bool(fits, "int.try_into.fits"):
        v = z3.Extract(db - 1, 0, wide)
        return mk_result(ex, rt, ok=VInt(v, ds))
    return mk_result(ex, rt, err=VOpaque("TryFromIntError", ex.new_vid()))


def m_unwrap(ex, callee, args, ret_ty, frame):
    v = args[0]
    if not isinstance(v, VAdt):
        return NOT_HANDLED
    i = adt_variant(ex, v, "unwrap")
    good = 1 if v.base() == "Option" else 0
    if i == good:
        return ex.adt_fields(v, i)[0]
    raise PathEnd("panic", "unwrap/expect on None/Err")


def m_ord_minmax(ex, callee, args, ret_ty, frame):
    """Ord::min / Ord::max on structs of unsigned integers compared lexicographically (derive(Ord))"""
    a, b = args
    if not (isinstance(a, VStruct) and isinstance(b, VStruct) and all(isinstance(x, VInt) for x in a.fields + b.fields)):
        return NOT_HANDLED
    lt = z3.BoolVal(False)
    for x, y in reversed(list(zip(a.fields, b.fields))):
        lt = z3.Or(z3.ULT(x.bv, y.bv), z3.And(x.bv == y.bv, lt))
    pick_a = lt if callee.endswith("min") else z3.Not(lt)
    # min(a, b) = a unless b < a ; max(a, b) = b unless a > b : ties do not matter for plain integers
    return VStruct(a.ty, [VInt(z3.simplify(z3.If(pick_a, x.bv, y.bv)), x.signed) for x, y in zip(a.fields, b.fields)], ex.new_vid())


def m_checked_arith(ex, callee, args, ret_ty, frame):
    m = re.match(r"^(?:<impl )?(i8|i16|i32|i64|isize|u8|u16|u32|u64|usize)>?::checked_(add|sub)$", callee)
    if not m or not all(isinstance(a, VInt) for a in args):
        return NOT_HANDLED
    r = ex.int_binop({"add": "AddWithOverflow", "sub": "SubWithOverflow"}[m.group(2)], args[0], args[1])
    rt = norm_ty(ret_ty) if ret_ty else "Option"
    if ex.branch_bool(r.items[1].b, "checked_" + m.group(2) + ".overflow"):
        return mk_option(ex, rt)
    return mk_option(ex, rt, r.items[0])


def m_into(ex, callee, args, ret_ty, frame):
    m = re.match(r"^<(.+) as (Into|TryInto|From|TryFrom)<(.+)>>::(into|try_into|from|try_from)$", callee)
    if not m:
        return NOT_HANDLED
    a, tr, b = m.group(1), m.group(2), m.group(3)
    if a.startswith("impl ") and getattr(args[0], "ty", None):
        # `val: impl Into<T>`: the conversion is the one of the value's own type
        a = norm_ty(args[0].ty)
        callee = f"<{a} as {tr}<{b}>>::{m.group(4)}"
    if tr in ("Into", "TryInto"):
        # rscel's own impl first (resolved by the caller when inlined); otherwise the blanket impl
        if ex.P.resolve(callee) is not None:
            f = ex.P.resolve(callee)
            return ex.run_function(f, args, 3)
        if a.replace(" ", "") == b.replace(" ", ""):
            return args[0] if tr == "Into" else mk_result(ex, ret_ty, ok=args[0])
        f = ex.P.resolve(f"<{b} as {'From' if tr == 'Into' else 'TryFrom'}<{a}>>::{'from' if tr == 'Into' else 'try_from'}")
        if f is not None:
            return ex.run_function(f, args, 3)
        return NOT_HANDLED
    if tr == "From":
        f = ex.P.resolve(callee)
        if f is not None:
            return ex.run_function(f, args, 3)
        if a.replace(" ", "") == b.replace(" ", ""):
            return args[0]
    return NOT_HANDLED


def m_identity_ref(ex, callee, args, ret_ty, frame):
    return args[0]


def m_clone(ex, callee, args, ret_ty, frame):
    v = deref(ex, args[0])
    return vcopy(v)


def m_must_use(ex, callee, args, ret_ty, frame):
    return args[0]


# ---- Vec / slices / iterators -------------------------------------------------------------
def elem_ty_of(callee, default="?"):
    m = re.search(r"(?:Vec|IntoIter|Iter)::?<([^>]*(?:<[^>]*>)?[^>]*)>", callee)
    return norm_ty(m.group(1)) if m else default


def m_vec_new(ex, callee, args, ret_ty, frame):
    et = ty_args(norm_ty(ret_ty))[0] if ret_ty and ty_args(norm_ty(ret_ty)) else elem_ty_of(callee)
    return VSeq(et, 0, [], ex.new_vid())


def _need_concrete(seq, what):
    if not isinstance(seq.length, int):
        raise Unsupported(f"{what} on a symbolic-length sequence")


def m_vec_push(ex, callee, args, ret_ty, frame):
    seq = deref(ex, args[0])
    if not isinstance(seq, VSeq):
        return NOT_HANDLED
    _need_concrete(seq, "push")
    seq.items.append(args[1])
    seq.length += 1
    return VUnit()


def m_vec_remove(ex, callee, args, ret_ty, frame):
    seq = deref(ex, args[0])
    if not isinstance(seq, VSeq):
        return NOT_HANDLED
    _need_concrete(seq, "remove")
    i = args[1].concrete() if isinstance(args[1], VInt) else None
    if i is None:
        raise Unsupported("Vec::remove at a symbolic index")
    if i >= seq.length:
        raise PathEnd("panic", "Vec::remove: index out of bounds")
    v = seq.items.pop(i)
    seq.length -= 1
    return v


def m_vec_pop(ex, callee, args, ret_ty, frame):
    seq = deref(ex, args[0])
    if not isinstance(seq, VSeq):
        return NOT_HANDLED
    _need_concrete(seq, "pop")
    if seq.length == 0:
        return mk_option(ex, norm_ty(ret_ty) if ret_ty else None)
    seq.length -= 1
    return mk_option(ex, norm_ty(ret_ty) if ret_ty else None, seq.items.pop())


def m_vec_len(ex, callee, args, ret_ty, frame):
    seq = deref(ex, args[0])
    if not isinstance(seq, VSeq):
        return NOT_HANDLED
    return ex.seq_len_value(seq)


def m_vec_is_empty(ex, callee, args, ret_ty, frame):
    seq = deref(ex, args[0])
    if not isinstance(seq, VSeq):
        return NOT_HANDLED
    if isinstance(seq.length, int):
        return VBool(seq.length == 0)
    return VBool(seq.length == 0)


def m_into_iter(ex, callee, args, ret_ty, frame):
    v = args[0]
    if isinstance(v, VIter):
        return v
    if isinstance(v, VSeq):
        return VIter(v, 0, None, "owned")
    if isinstance(v, VStruct) and base_ty(v.ty) == "Range":
        return v
    if isinstance(v, VRef):
        t = deref(ex, v)
        if isinstance(t, VSeq):
            return VIter(None, 0, v, "ref")
    return NOT_HANDLED


def m_slice_iter(ex, callee, args, ret_ty, frame):
    v = args[0]
    t = deref(ex, v)
    if isinstance(t, VSeq) and isinstance(v, VRef):
        return VIter(None, 0, v, "ref")
    return NOT_HANDLED


def m_iter_next(ex, callee, args, ret_ty, frame):
    it = deref(ex, args[0])
    rt = norm_ty(ret_ty) if ret_ty else "Option"
    if isinstance(it, VStruct) and base_ty(it.ty) == "Range":
        s, e = it.fields
        if ex.branch_bool(z3.ULT(s.bv, e.bv) if not s.signed else s.bv < e.bv, "Range::next"):
            it.fields[0] = VInt(s.bv + 1, s.signed)
            return mk_option(ex, rt, s)
        return mk_option(ex, rt)
    if not isinstance(it, VIter):
        return NOT_HANDLED
    seq = it.seq if it.kind == "owned" else deref(ex, it.src)
    if isinstance(seq.length, int):
        more = it.pos < seq.length
    else:
        more = ex.branch_bool(z3.UGT(seq.length, it.pos), "iter.next")
    if not more:
        return mk_option(ex, rt)
    i = it.pos
    it.pos += 1
    ex.seq_item(seq, i)
    if it.kind == "owned":
        return mk_option(ex, rt, seq.items[i])
    return mk_option(ex, rt, VRef(it.src.root, it.src.path + (("i", i),), False))


def m_iter_rev(ex, callee, args, ret_ty, frame):
    it = args[0]
    if not isinstance(it, VIter) or it.kind != "owned":
        return NOT_HANDLED
    _need_concrete(it.seq, "rev")
    rest = [vcopy(x) for x in it.seq.items[it.pos:]]
    rest.reverse()
    return VIter(VSeq(it.seq.elem_ty, len(rest), rest, ex.new_vid()), 0, None, "owned")


def m_slice_reverse(ex, callee, args, ret_ty, frame):
    seq = deref(ex, args[0])
    if not isinstance(seq, VSeq):
        return NOT_HANDLED
    _need_concrete(seq, "reverse")
    seq.items.reverse()
    return VUnit()


def m_vec_index(ex, callee, args, ret_ty, frame):
    r, i = args[0], args[1]
    seq = deref(ex, r)
    if not isinstance(seq, VSeq) or not isinstance(i, VInt):
        return NOT_HANDLED
    c = i.concrete()
    if c is None:
        c = ex.concretize_index(i, seq)
    n = seq.length
    inb = (c < n) if isinstance(n, int) else ex.branch_bool(z3.UGT(n, c), "index.bounds")
    if not inb:
        raise PathEnd("panic", "index out of bounds")
    ex.seq_item(seq, c)
    return VRef(r.root, r.path + (("i", c),), r.mut)


def concrete_len(ex, seq, what):
    """decide the length of a sequence (forks over the bounded possibilities when symbolic)"""
    if isinstance(seq.length, int):
        return seq.length
    bound = ex.cfg.get("seq_bound", 3) + 3
    k = ex.branch([(str(j), seq.length == j) for j in range(bound + 1)], what + ".len")
    return k


def m_slice_ends(ex, callee, args, ret_ty, frame):
    """<[T]>::{first, last, split_first, split_last, get}"""
    r = args[0]
    seq = deref(ex, r)
    if not isinstance(seq, VSeq) or not isinstance(r, VRef):
        return NOT_HANDLED
    which = re.search(r"::(first|last|split_first|split_last|get)(::<.*>)?$", callee).group(1)
    rt = norm_ty(ret_ty) if ret_ty else "Option"
    n = concrete_len(ex, seq, which)
    if which == "get":
        i = args[1].concrete() if isinstance(args[1], VInt) else None
        if i is None:
            i = ex.concretize_index(args[1], seq)
        if i >= n:
            return mk_option(ex, rt)
        ex.seq_item(seq, i)
        return mk_option(ex, rt, VRef(r.root, r.path + (("i", i),), False))
    if n == 0:
        return mk_option(ex, rt)
    for j in range(n):
        ex.seq_item(seq, j)
    at = 0 if which in ("first", "split_first") else n - 1
    elem = VRef(r.root, r.path + (("i", at),), False)
    if which in ("first", "last"):
        return mk_option(ex, rt, elem)
    rest_items = seq.items[1:] if which == "split_first" else seq.items[:n - 1]
    rest = VSeq(seq.elem_ty, n - 1, [vcopy(x) for x in rest_items], ex.new_vid())
    return mk_option(ex, rt, VTuple([elem, VRef(ex.heap(rest, "subslice"), (), False)]))


def m_extend_from_slice(ex, callee, args, ret_ty, frame):
    dst, src = deref(ex, args[0]), deref(ex, args[1])
    if not isinstance(dst, VSeq) or not isinstance(src, VSeq):
        return NOT_HANDLED
    n = concrete_len(ex, dst, "extend.dst")
    m = concrete_len(ex, src, "extend.src")
    for j in range(n):
        ex.seq_item(dst, j)
    for j in range(m):
        ex.seq_item(src, j)
    dst.length = n + m
    dst.items = dst.items[:n] + [vcopy(x) for x in src.items[:m]]
    return VUnit()


def m_to_vec(ex, callee, args, ret_ty, frame):
    src = deref(ex, args[0])
    if not isinstance(src, VSeq):
        return NOT_HANDLED
    m = concrete_len(ex, src, "to_vec")
    for j in range(m):
        ex.seq_item(src, j)
    return VSeq(src.elem_ty, m, [vcopy(x) for x in src.items[:m]], ex.new_vid())


def m_iter_map(ex, callee, args, ret_ty, frame):
    """Iterator::map: a lazy adaptor (inner iterator, closure)"""
    return VStruct("MapIter", [args[0], args[1]], ex.new_vid())


def drain(ex, it, frame):
    """all remaining items of an iterator value (concrete length required)"""
    out = []
    if isinstance(it, VStruct) and base_ty(it.ty) == "MapIter":
        for x in drain(ex, it.fields[0], frame):
            r = ex.call_closure(it.fields[1], [x])
            if r is None:
                raise Unsupported("map over a closure whose MIR is not in the dump")
            out.append(r)
        return out
    if isinstance(it, VStruct) and base_ty(it.ty) == "Range":
        s, e = it.fields
        a, b = s.concrete(), e.concrete()
        if a is None or b is None:
            raise Unsupported("drain of a symbolic range")
        return [VInt(z3.BitVecVal(k, s.bits), s.signed) for k in range(a, b)]
    if isinstance(it, VIter) and it.kind == "owned":
        if not isinstance(it.seq.length, int):
            # a sequence of symbolic (bounded) length: one path per length
            bound = ex.cfg.get("seq_bound", 3)
            k = ex.branch([(str(j), it.seq.length == j) for j in range(bound + 1)], "drain.len")
            for j in range(k):
                ex.seq_item(it.seq, j)
            return [vcopy(x) for x in it.seq.items[it.pos:k]]
        return [vcopy(x) for x in it.seq.items[it.pos:]]
    if isinstance(it, VIter) and it.kind == "ref":
        seq = deref(ex, it.src)
        _need_concrete(seq, "drain")
        return [VRef(it.src.root, it.src.path + (("i", i),), False) for i in range(it.pos, seq.length)]
    if isinstance(it, VSeq):
        _need_concrete(it, "drain")
        return [vcopy(x) for x in it.items]
    raise Unsupported(f"drain of {it!r}")


def m_iter_chain(ex, callee, args, ret_ty, frame):
    """Iterator::chain: eager concatenation (both sides have a decided length in the code reached)"""
    a = drain(ex, args[0], frame)
    b = drain(ex, args[1], frame)
    items = a + b
    return VIter(VSeq("?", len(items), items, ex.new_vid()), 0, None, "owned")


def m_iter_all_any(ex, callee, args, ret_ty, frame):
    """Iterator::all / Iterator::any with a closure whose MIR is in the dump: items are taken one by one
    through `next`, the closure runs on each, evaluation stops at the first deciding item"""
    want_all = "::all::<" in callee
    while True:
        nx = m_iter_next(ex, callee, [args[0]], "Option<?>", frame)
        if nx is NOT_HANDLED:
            return NOT_HANDLED
        if adt_variant(ex, nx, "all/any next") == 0:
            return VBool(want_all)
        item = ex.adt_fields(nx, 1)[0]
        r = ex.call_closure(args[1], [item])
        if r is None or not isinstance(r, VBool):
            raise Unsupported("all/any over a closure whose MIR is not in the dump")
        ok = r.b if not isinstance(r.b, bool) else z3.BoolVal(r.b)
        if ex.branch_bool(ok, "all/any closure") != want_all:
            return VBool(not want_all)


def m_iter_enumerate(ex, callee, args, ret_ty, frame):
    """Iterator::enumerate: eager, (index, item) pairs (items of a by-reference iterator stay references)"""
    it = args[0]
    if not isinstance(it, VIter):
        return NOT_HANDLED
    seq = it.seq if it.kind == "owned" else deref(ex, it.src)
    _need_concrete(seq, "enumerate")
    out = []
    for k, i in enumerate(range(it.pos, seq.length)):
        item = vcopy(seq.items[i]) if it.kind == "owned" else VRef(it.src.root, it.src.path + (("i", i),), False)
        out.append(VTuple([VInt(z3.BitVecVal(k, 64), False), item]))
    return VIter(VSeq("?", len(out), out, ex.new_vid()), 0, None, "owned")


def m_collect_result(ex, callee, args, ret_ty, frame):
    """Iterator::collect::<Result<Vec<T>, E>>(): the items in order until the first Err, which is the result"""
    items = drain(ex, args[0], frame)
    rt = norm_ty(ret_ty) if ret_ty else "Result"
    out = []
    for it in items:
        if not isinstance(it, VAdt) or base_ty(it.ty) != "Result":
            return NOT_HANDLED
        if adt_variant(ex, it, "collect Result item") == 1:
            return mk_result(ex, rt, err=ex.adt_fields(it, 1)[0])
        out.append(ex.adt_fields(it, 0)[0])
    return mk_result(ex, rt, ok=VSeq("?", len(out), out, ex.new_vid()))


def m_iter_find_map(ex, callee, args, ret_ty, frame):
    """Iterator::find_map with a closure whose MIR is in the dump: the first Some the closure returns"""
    rt = norm_ty(ret_ty) if ret_ty else "Option"
    while True:
        nx = m_iter_next(ex, callee, [args[0]], "Option<?>", frame)
        if nx is NOT_HANDLED:
            return NOT_HANDLED
        if adt_variant(ex, nx, "find_map next") == 0:
            return mk_option(ex, rt)
        r = ex.call_closure(args[1], [ex.adt_fields(nx, 1)[0]])
        if r is None or not isinstance(r, VAdt):
            raise Unsupported("find_map over a closure whose MIR is not in the dump")
        if adt_variant(ex, r, "find_map closure") == 1:
            return r


def m_iter_flat_map(ex, callee, args, ret_ty, frame):
    """Iterator::flat_map where the closure returns an Option or a Result (both iterate over their
    Some / Ok value and over nothing otherwise), or a sequence: eager"""
    out = []
    for x in drain(ex, args[0], frame):
        r = ex.call_closure(args[1], [x])
        if r is None:
            raise Unsupported("flat_map over a closure whose MIR is not in the dump")
        if isinstance(r, VAdt) and base_ty(r.ty) in ("Option", "Result"):
            keep = 1 if base_ty(r.ty) == "Option" else 0
            if adt_variant(ex, r, "flat_map item") == keep:
                out.append(ex.adt_fields(r, keep)[0])
        else:
            out += drain(ex, r, frame)
    return VIter(VSeq("?", len(out), out, ex.new_vid()), 0, None, "owned")


def m_iter_unzip(ex, callee, args, ret_ty, frame):
    """Iterator::unzip over pairs: two vectors with the first / second components in order"""
    items = drain(ex, args[0], frame)
    a, b = [], []
    for it in items:
        if not isinstance(it, VTuple) or len(it.items) != 2:
            return NOT_HANDLED
        a.append(it.items[0])
        b.append(it.items[1])
    m = re.search(r"::unzip::<(.+)>$", callee)
    tys = mp.split_top(m.group(1)) if m else ["?", "?"]
    return VTuple([VSeq(norm_ty(tys[0]), len(a), a, ex.new_vid()), VSeq(norm_ty(tys[1]) if len(tys) > 1 else "?", len(b), b, ex.new_vid())])


def m_iter_flatten(ex, callee, args, ret_ty, frame):
    """Iterator::flatten: eager concatenation of the inner iterators, in order"""
    out = []
    for inner in drain(ex, args[0], frame):
        out += drain(ex, inner, frame)
    return VIter(VSeq("?", len(out), out, ex.new_vid()), 0, None, "owned")


def m_option_eq(ex, callee, args, ret_ty, frame):
    """<Option<T> as PartialEq>::eq / ne: None == None; Some(x) == Some(y) iff x == y by T's own PartialEq"""
    a, b = deref(ex, args[0]), deref(ex, args[1])
    if not (isinstance(a, VAdt) and isinstance(b, VAdt) and a.base() == "Option" and b.base() == "Option"):
        return NOT_HANDLED
    ia, ib = adt_variant(ex, a, "Option::eq.lhs"), adt_variant(ex, b, "Option::eq.rhs")
    if ia != ib:
        r = VBool(False)
    elif ia == 0:
        r = VBool(True)
    else:
        x, y = ex.adt_fields(a, 1)[0], ex.adt_fields(b, 1)[0]
        inner = ty_args(norm_ty(a.ty))[0] if ty_args(norm_ty(a.ty)) else None
        tx, ty_ = deref(ex, x), deref(ex, y)
        if isinstance(tx, VInt) and isinstance(ty_, VInt):
            r = VBool(tx.bv == ty_.bv)              # chars and integers compare by value
            return VBool(z3.Not(r.b)) if callee.endswith("::ne") else r
        if isinstance(tx, VBool) and isinstance(ty_, VBool):
            r = VBool(tx.b == ty_.b)
            return VBool(z3.Not(r.b)) if callee.endswith("::ne") else r
        tname = base_ty(getattr(tx, "ty", "") or "")
        f = None
        for cand in ex.P.trait_impls.get((tname, "PartialEq", "eq"), []):
            f = cand
            break
        if f is None:
            return NOT_HANDLED
        rx = x if isinstance(x, VRef) else VRef(ex.heap(x, "eq.l"))
        ry = y if isinstance(y, VRef) else VRef(ex.heap(y, "eq.r"))
        r = ex.run_function(f, [rx, ry], 3)
    if callee.endswith("::ne"):
        return VBool(z3.Not(r.b))
    return r


def m_vec_extend(ex, callee, args, ret_ty, frame):
    dst = deref(ex, args[0])
    if not isinstance(dst, VSeq):
        return NOT_HANDLED
    _need_concrete(dst, "extend")
    items = drain(ex, args[1], frame)
    dst.items += items
    dst.length += len(items)
    return VUnit()


def m_collect_vec(ex, callee, args, ret_ty, frame):
    items = drain(ex, args[0], frame)
    et = ty_args(norm_ty(ret_ty))[0] if ret_ty and ty_args(norm_ty(ret_ty)) else "?"
    return VSeq(et, len(items), items, ex.new_vid())


def m_collect_any(ex, callee, args, ret_ty, frame):
    """Iterator::collect::<T>() for a T with a FromIterator impl in the dump (e.g. PreResolvedByteCode)"""
    m = re.search(r"::collect::<(.+)>$", callee)
    if not m:
        return NOT_HANDLED
    target = m.group(1)
    cands = ex.P.trait_impls.get((base_ty(target), "FromIterator", "from_iter"), [])
    # the impl for this iterator's item type
    im = re.match(r"^<(?:\w+::)*\w+<(.+)> as Iterator>::collect", callee)
    item = norm_ty(im.group(1)).replace(" ", "") if im else None
    for cand in cands:
        tr = norm_ty(cand.trait or "").replace(" ", "")
        if item and tr == f"FromIterator<{item}>":
            return ex.run_function(cand, [args[0]], 3)
    if len(cands) == 1:
        return ex.run_function(cands[0], [args[0]], 3)
    # nested adaptor types (Chain<Chain<..>>): decide by the items themselves
    it = args[0]
    items = it.seq.items[it.pos:] if isinstance(it, VIter) and it.seq is not None else None
    if items is not None:
        kind = base_ty(getattr(items[0], "ty", "")) if items else None
        for cand in cands:
            tr = norm_ty(cand.trait or "")
            if kind is None or tr == f"FromIterator<{kind}>":
                return ex.run_function(cand, [args[0]], 3)
    return NOT_HANDLED


def m_set_new(ex, callee, args, ret_ty, frame):
    return VSeq("String", 0, [], ex.new_vid())


def m_set_insert(ex, callee, args, ret_ty, frame):
    st = deref(ex, args[0])
    if not isinstance(st, VSeq):
        return NOT_HANDLED
    vid = getattr(args[1], "vid", None)
    present = any(getattr(x, "vid", None) == vid for x in st.items)
    if not present:
        st.items.append(args[1])
        st.length += 1
    return VBool(not present)


def m_vec_try_into_array(ex, callee, args, ret_ty, frame):
    m = re.search(r"TryInto<\[.*; (\d+)\]>>::try_into$", callee)
    v = args[0]
    if not m or not isinstance(v, VSeq):
        return NOT_HANDLED
    _need_concrete(v, "try_into array")
    rt = norm_ty(ret_ty) if ret_ty else "Result"
    if v.length == int(m.group(1)):
        return mk_result(ex, rt, ok=VSeq(v.elem_ty, v.length, v.items, ex.new_vid()))
    return mk_result(ex, rt, err=v)


def m_box_new_uninit(ex, callee, args, ret_ty, frame):
    """Box::<[T; N]>::new_uninit(): the lowering of `vec![..]` writes the array through the box's
    raw pointer and then calls box_assume_init_into_vec_unsafe"""
    cell = VStruct("MaybeUninit", [VUnit(), VStruct("ManuallyDrop", [VStruct("MaybeDangling", [VSeq("?", 0, [], ex.new_vid())])])], ex.new_vid())
    key = ex.heap(cell, "box")
    return VStruct("Box", [VStruct("Unique", [VRef(key, (), True)])], ex.new_vid())


def m_box_into_vec(ex, callee, args, ret_ty, frame):
    b = args[0]
    try:
        r = b.fields[0].fields[0]
        cell = ex.read(r.root, r.path)
        arr = cell.fields[1].fields[0].fields[0]
    except Exception:
        return NOT_HANDLED
    if not isinstance(arr, VSeq):
        return NOT_HANDLED
    return arr


def m_vec_from_array(ex, callee, args, ret_ty, frame):
    # <[T]>::into_vec(Box<[T; N]>) / vec! macro lowering / Vec::from
    v = deref(ex, args[0])
    if isinstance(v, VSeq):
        return v
    return NOT_HANDLED


# ---- Option helpers -------------------------------------------------------------------------
def m_option_unwrap_or_else(ex, callee, args, ret_ty, frame):
    v = args[0]
    i = adt_variant(ex, v, "unwrap_or_else")
    some = 1 if v.base() == "Option" else 0
    if i == some:
        return ex.adt_fields(v, i)[0]
    fn = args[1]
    if isinstance(fn, VFn):
        f = ex.P.resolve(fn.name)
        if f is not None and any(re.search(p, f.name) for p in ex.cfg.get("inline", [])):
            return ex.run_function(f, [], 3)
        return ex.havoc(norm_ty(fn.name), [], ret_ty)
    r = ex.call_closure(fn, [])
    if r is not None:
        return r
    return ex.havoc("closure(unwrap_or_else)", [], ret_ty)


def m_option_is_some(ex, callee, args, ret_ty, frame):
    v = deref(ex, args[0])
    if not isinstance(v, VAdt):
        return NOT_HANDLED
    i = adt_variant(ex, v, "is_some")
    want = 1 if callee.endswith("is_some") else 0
    return VBool(i == want)


def m_option_cloned(ex, callee, args, ret_ty, frame):
    v = args[0]
    if not isinstance(v, VAdt):
        return NOT_HANDLED
    i = adt_variant(ex, v, "cloned")
    rt = norm_ty(ret_ty) if ret_ty else "Option"
    if i == 0:
        return mk_option(ex, rt)
    inner = deref(ex, ex.adt_fields(v, 1)[0])
    return mk_option(ex, rt, vcopy(inner))


def m_result_map_into(ex, callee, args, ret_ty, frame):
    # Result::<T, E>::map::<U, fn item>(r, f) where f is a From/Into conversion or a constructor
    v = args[0]
    if not isinstance(v, VAdt) or len(args) < 2:
        return NOT_HANDLED
    i = adt_variant(ex, v, "Result::map")
    rt = norm_ty(ret_ty) if ret_ty else "Result"
    if i == 1:
        return VAdt(rt, 1, {1: [ex.adt_fields(v, 1)[0]]}, ex.new_vid())
    x = ex.adt_fields(v, 0)[0]
    if not isinstance(args[1], VFn):
        r = ex.call_closure(args[1], [x])
        if r is None:
            return NOT_HANDLED
        return VAdt(rt, 0, {0: [r]}, ex.new_vid())
    name = norm_ty(args[1].name)
    r = None
    for pat, fn in BUILTIN:
        if re.search(pat, name):
            r = fn(ex, name, [x], ty_args(rt)[0] if ty_args(rt) else None, frame)
            if r is not NOT_HANDLED:
                break
            r = None
    if r is None:
        f = ex.P.resolve(args[1].name)
        if f is not None:
            r = ex.run_function(f, [x], 3)
        else:
            r = ex.havoc(name, [x], ty_args(rt)[0] if ty_args(rt) else None)
    return VAdt(rt, 0, {0: [r]}, ex.new_vid())


# ---- RefCell (ScopedCounter) --------------------------------------------------------------
def m_refcell_new(ex, callee, args, ret_ty, frame):
    return VStruct("RefCell", [args[0]], ex.new_vid())


def m_refcell_borrow(ex, callee, args, ret_ty, frame):
    r = args[0]
    return VStruct("RefGuard", [VRef(r.root, r.path + (("f", None, 0),), "mut" in callee)], ex.new_vid())


def m_guard_deref(ex, callee, args, ret_ty, frame):
    g = deref(ex, args[0])
    if isinstance(g, VStruct) and base_ty(g.ty) == "RefGuard":
        return g.fields[0]
    return NOT_HANDLED


# ---- HashMap (only as an event log: keys are opaque strings) -------------------------------
def m_map_new(ex, callee, args, ret_ty, frame):
    return VMap(ex.new_vid())


def m_map_insert(ex, callee, args, ret_ty, frame):
    m = deref(ex, args[0])
    if not isinstance(m, VMap):
        return NOT_HANDLED
    m.entries.append((args[1], args[2]))
    ex.trace.append(Event("HashMap::insert", [args[1], args[2]], None))
    return ex.fresh(ret_ty, "insert.old") if ret_ty else VUnit()


# ---- formatting ---------------------------------------------------------------------------------
def m_opaque(ex, callee, args, ret_ty, frame):
    return VOpaque(norm_ty(ret_ty) if ret_ty else "?", ex.new_vid(), callee.split("::")[-1][:30])


def m_string_new(ex, callee, args, ret_ty, frame):
    return VOpaque("String", ex.new_vid(), "String::new")


def m_to_string(ex, callee, args, ret_ty, frame):
    a = args[0]
    if isinstance(a, VStr):
        return VOpaque("String", ex.new_vid(), "lit:" + a.s)
    t = deref(ex, a)
    if isinstance(t, VOpaque):
        # an owned copy of the same text: same identity
        return VOpaque("String", t.vid, t.tag)
    return VOpaque("String", ex.new_vid(), "to_string")


BUILTIN = [
    (r"^<(Result|Option)<.*> as Try>::branch$", m_try_branch),
    (r" as FromResidual<.*>>::from_residual$", m_from_residual),
    (r"^<.+ as (Into|TryInto|From|TryFrom)<.+>>::(into|try_into|from|try_from)$", m_into),
    (r"^<(String|Vec<.*>|Box<.*>|Rc<.*>|Arc<.*>|&.*) as (Deref|DerefMut|AsRef<.*>|Borrow<.*>)>::(deref|deref_mut|as_ref|borrow)$", m_identity_ref),
    (r"^(String|Vec<.*>|Vec)::(as_str|as_slice|as_mut_slice|as_bytes)$", m_identity_ref),
    (r"^<.+ as Clone>::clone$", m_clone),
    (r"^must_use", m_must_use),
    (r"^Vec(::)?(<.*>)?::new$", m_vec_new),
    (r"^Vec(::)?(<.*>)?::with_capacity$", m_vec_new),
    (r"^Vec(::)?(<.*>)?::push$", m_vec_push),
    (r"^Vec(::)?(<.*>)?::pop$", m_vec_pop),
    (r"^Vec(::)?(<.*>)?::remove$", m_vec_remove),
    (r"^Vec(::)?(<.*>)?::len$", m_vec_len),
    (r"^(Vec(::)?(<.*>)?|<impl \[.*\]>)::is_empty$", m_vec_is_empty),
    (r"^<impl \[.*\]>::len$", m_vec_len),
    (r"^<impl \[.*\]>::iter$", m_slice_iter),
    (r"^Vec(::)?(<.*>)?::iter$", m_slice_iter),
    (r"^<impl \[.*\]>::reverse$", m_slice_reverse),
    (r"^Box::<\[.*; \d+\]>::new_uninit$", m_box_new_uninit),
    (r"^box_assume_init_into_vec_unsafe::<", m_box_into_vec),
    (r"^Vec(::)?(<.*>)?::extend_from_slice$", m_extend_from_slice),
    (r"^<impl \[.*\]>::to_vec$|^<\[.*\] as ToOwned>::to_owned$", m_to_vec),
    (r"^<.+ as Iterator>::map::<", m_iter_map),
    (r"^<.+ as Iterator>::chain::<", m_iter_chain),
    (r"^<Option<.*> as PartialEq>::(eq|ne)$", m_option_eq),
    (r"^<Vec<.*> as Extend<.*>>::extend::<", m_vec_extend),
    (r"^<.+ as Iterator>::collect::<Result<Vec<.*>, .*>>$", m_collect_result),
    (r"^<.+ as Iterator>::collect::<Vec<.*>>$", m_collect_vec),
    (r"^<.+ as Iterator>::unzip::<", m_iter_unzip),
    (r"^<.+ as Iterator>::find_map::<", m_iter_find_map),
    (r"^<.+ as Iterator>::flat_map::<", m_iter_flat_map),
    (r"^<.+ as Iterator>::enumerate$", m_iter_enumerate),
    (r"^<.+ as Iterator>::(all|any)::<", m_iter_all_any),
    (r"^<.+ as Iterator>::flatten$", m_iter_flatten),
    (r"^<.+ as Iterator>::collect::<[A-Z]\w*>$", m_collect_any),
    (r"^HashSet(::)?(<.*>)?::new$", m_set_new),
    (r"^HashSet(::)?(<.*>)?::insert$", m_set_insert),
    (r"^HashSet(::)?(<.*>)?::iter$", m_slice_iter),
    (r"^<hash_set::Iter<.*> as Iterator>::next$|^<Iter<String> as Iterator>::next$", m_iter_next),
    (r"^<Vec<.*> as TryInto<\[.*; \d+\]>>::try_into$", m_vec_try_into_array),
    (r"^<impl \[.*\]>::(first|last|split_first|split_last|get)(::<.*>)?$", m_slice_ends),
    (r"^<impl \[.*\]>::into_vec", m_vec_from_array),
    (r"^<.+ as IntoIterator>::into_iter$", m_into_iter),
    (r"^<(IntoIter|Iter|Range|Rev)<.*> as Iterator>::next$", m_iter_next),
    (r"^<(IntoIter)<.*> as Iterator>::rev$", m_iter_rev),
    (r"^<(Vec<.*>|\[.*\]) as (Index|IndexMut)<usize>>::(index|index_mut)$", m_vec_index),
    (r"^Option(::)?(<.*>)?::unwrap_or_else", m_option_unwrap_or_else),
    (r"^Option(::)?(<.*>)?::ok_or_else", m_ok_or_else),
    (r"^Result(::)?(<.*>)?::map_err::", m_map_err),
    (r"::checked_(add|sub)$", m_checked_arith),
    (r"^<\w+ as Ord>::(min|max)$", m_ord_minmax),
    (r"^<.+ as Iterator>::next$", m_iter_next),
    (r"^<.+ as Fn(Once|Mut)?<.*>>::call(_once|_mut)?$", m_fn_call),
    (r"^<\w+ as (TryInto|TryFrom)<\w+>>::(try_into|try_from)$", m_int_try_into),
    (r"^(Result|Option)(::)?(<.*>)?::(unwrap|expect)$", m_unwrap),
    (r"^Option(::)?(<.*>)?::(is_some|is_none)$", m_option_is_some),
    (r"^Option(::)?(<.*>)?::cloned$", m_option_cloned),
    (r"^Result(::)?(<.*>)?::map::", m_result_map_into),
    (r"^RefCell(::)?(<.*>)?::new$", m_refcell_new),
    (r"^RefCell(::)?(<.*>)?::(borrow|borrow_mut)$", m_refcell_borrow),
    (r"^<(Ref|RefMut)<.*> as (Deref|DerefMut)>::(deref|deref_mut)$", m_guard_deref),
    (r"^HashMap(::)?(<.*>)?::(new|with_capacity)$", m_map_new),
    (r"^HashMap(::)?(<.*>)?::insert$", m_map_insert),
    (r"^(format|Arguments(<.*>)?::new|Argument(<.*>)?::new_\w+)", m_opaque),
    (r"^fmt::format$|::fmt::format$|^std::fmt::format$", m_opaque),
    (r"^String::new$", m_string_new),
    (r"^<str as ToString>::to_string$|^<str as ToOwned>::to_owned$|^str::to_owned$|^<impl str>::to_owned$|^<String as (From<&str>|Clone|ToString)>", m_to_string),
]
