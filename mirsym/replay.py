"""Native confirmation of mirsym counterexamples.

`replay.py <replay-record.json> <out.json> <repo> <kani-crate-dir> <cache-dir>`

A symbolic counterexample is a class of inputs (a path condition plus a z3 model).  Each
failure record carries a `scenario`: the model's concrete choices (list length, outcome of
every body evaluation, operand kinds, which names are bound ...).  Here the scenario is turned
into a concrete CEL program (macros: through the public API) or a concrete bytecode program
(VM targets: `Interpreter::run_raw` against a reference stack machine using the real value
operations), executed by the `mreplay` binary built against the repository under test, and
compared with what the property demands.  Only a concrete disagreement counts as reproduced.
"""
import json
import os
import subprocess
import sys

NATIVE_TOOLCHAIN = "nightly-2025-11-11"


def build(kani_dir, cache):
    env = dict(os.environ)
    env["CARGO_NET_OFFLINE"] = "true"
    env["RUSTUP_TOOLCHAIN"] = NATIVE_TOOLCHAIN
    env.pop("RUSTFLAGS", None)
    td = os.path.join(cache, "native")
    p = subprocess.run(["cargo", "build", "--offline", "--bin", "mreplay", "--target-dir", td], cwd=kani_dir, env=env, capture_output=True, text=True)
    exe = os.path.join(td, "debug", "mreplay")
    if p.returncode != 0 or not os.path.exists(exe):
        return None, p.stderr[-2000:]
    return exe, ""


def run(exe, mode, reqs):
    p = subprocess.run([exe, mode], input="\n".join(json.dumps(r) for r in reqs) + "\n", capture_output=True, text=True, timeout=300)
    out = []
    for l in p.stdout.splitlines():
        try:
            out.append(json.loads(l))
        except ValueError:
            pass
    if len(out) != len(reqs):
        return None, f"mreplay rc={p.returncode} stderr={p.stderr[-500:]}"
    return out, ""


# ----------------------------------------------------------------------------- macros
ERR_CANDIDATES = ["(1/0)", "({'a': 1}.b)", "zz_unbound_q", "([1][5])", "(1 < 'a')", "(-'a')", "size(1, 2)", "int('x')", "(1 % 0)", "[1]['a']", "('a'.matches('('))", "uint(-1)"]


def probe_errors(exe):
    reqs = [{"programs": [["p", e]], "run": ["p"], "params": {}} for e in ERR_CANDIDATES]
    out, why = run(exe, "eval", reqs)
    kinds = {}
    if out is None:
        return kinds
    for e, o in zip(ERR_CANDIDATES, out):
        r = o.get("results", [{}])[0]
        if "err" in r and not r.get("compile"):
            kinds.setdefault(r["err"], e)
    return kinds


def expr_for(outcome, kinds, role, i):
    if outcome.startswith("err:"):
        k = outcome[4:]
        if k not in kinds:
            raise KeyError(f"no expression known to fail with a {k} error")
        return kinds[k]
    if outcome.startswith("truthy"):
        k = outcome.split(":")[1] if ":" in outcome else "Bool"
        return {"Int": "y", "UInt": "5u", "Float": "1.5", "String": "'s'", "Bytes": "b'a'", "List": "[1]", "Map": "{'a': 1}", "Type": "int"}.get(k, "y == 5")
    if outcome.startswith("falsy"):
        k = outcome.split(":")[1] if ":" in outcome else "Bool"
        return {"Int": "y - 5", "UInt": "0u", "Float": "0.0", "String": "''", "Bytes": "b''", "List": "[]", "Map": "{}", "Null": "null"}.get(k, "y != 5")
    if outcome == "null":
        return "null"
    if outcome == "value":
        return {"transform": "x + 100", "step": "acc * 10 + x + 1", "seed": "7", "arg": str(7 + i)}[role]
    raise KeyError(outcome)


def chain(n, per_elem, key_of):
    """x == k0 ? E0 : (x == k1 ? E1 : E2)"""
    if n == 0:
        return "true"
    e = per_elem[n - 1]
    for i in range(n - 2, -1, -1):
        e = f"x == {key_of(i)} ? ({per_elem[i]}) : ({e})"
    return e


def concrete_macro(sc, kinds):
    """-> (request for `mreplay eval`, expected outcome descriptor) or raises KeyError when the
    scenario has no concrete counterpart"""
    m, nargs, recv, n = sc["macro"], sc["nargs"], sc["receiver"], sc["n"]
    outs = {(c, i): o for c, i, o in sc["outcomes"]}
    params = {"x": 1000, "y": 5, "acc": 2000}
    if m in ("has", "coalesce"):
        args = []
        res = []
        for k in range(nargs):
            o = outs.get((k, None), "value" if m == "has" else "null")
            args.append(expr_for(o, kinds, "arg", k))
            res.append(o)
        src = f"{m}({', '.join(args)})"
        if m == "has":
            if nargs != 1:
                exp = ("anyerr",)
            elif res[0].startswith("err:"):
                exp = ("ok", "Bool(false)") if res[0][4:] in ("Binding", "Attribute") else ("err", res[0][4:])
            else:
                exp = ("ok", "Bool(true)")
        else:
            exp = ("ok", "Null")
            for k, o in enumerate(res):
                if o.startswith("err:"):
                    if o[4:] in ("Binding", "Attribute"):
                        continue
                    exp = ("err", o[4:])
                    break
                if o == "null":
                    continue
                exp = ("ok", f"Int({7 + k})")
                break
        return {"programs": [["main", src], ["after", "x"]], "run": ["main", "after"], "params": params}, exp, src
    # comprehension macros
    if recv == "List":
        recv_src = "[" + ", ".join(str(i) for i in range(n)) + "]"
        key_of = lambda i: str(i)
        elem_dbg = lambda i: f"Int({i})"
    elif recv == "Map":
        if n > 1 and len({o for (c, i), o in outs.items()}) > 1:
            raise KeyError("map receiver with element-dependent outcomes (key order is not fixed natively)")
        recv_src = "{" + ", ".join(f"'k{i}': {i}" for i in range(n)) + "}"
        key_of = lambda i: f"'k{i}'"
        elem_dbg = lambda i: f'String("k{i}")'
    else:
        recv_src = {"Int": "5", "Bool": "true", "String": "'s'", "Null": "null", "UInt": "5u", "Float": "1.5"}.get(recv)
        if recv_src is None:
            raise KeyError(f"receiver kind {recv}")
        key_of = lambda i: str(i)
        elem_dbg = lambda i: f"Int({i})"
    role_of_code = {"all": {1: "pred"}, "exists": {1: "pred"}, "exists_one": {1: "pred"}, "filter": {1: "pred"},
                    "map": ({1: "transform"} if nargs == 2 else {1: "pred", 2: "transform"}), "reduce": {2: "step", 3: "seed"}}[m]
    default = {"pred": "truthy", "transform": "value", "step": "value", "seed": "value"}

    def body(code):
        role = role_of_code[code]
        per = [expr_for(outs.get((code, i), default[role]), kinds, role, i) for i in range(max(n, 1))]
        return chain(n, per, key_of) if n > 0 else per[0]

    def oc(code, i):
        return outs.get((code, i), default[role_of_code[code]])
    if m == "reduce":
        seed_o = outs.get((3, None), "value")
        args = ["acc", "x", body(2), expr_for(seed_o, kinds, "seed", 0)][:nargs] if nargs <= 4 else ["acc", "x", body(2), "7", "1"]
    elif m == "map":
        args = (["x", body(1)] if nargs == 2 else ["x", body(1), body(2)]) if nargs in (2, 3) else ["x"] * nargs
    else:
        args = ["x", body(1)][:nargs] if nargs <= 2 else ["x", body(1)] + ["1"] * (nargs - 2)
    src = f"{recv_src}.{m}({', '.join(args)})"
    # concrete reference
    good_arity = {"all": [2], "exists": [2], "exists_one": [2], "filter": [2], "map": [2, 3], "reduce": [4]}[m]
    if nargs not in good_arity or (recv not in ("List",) and not (recv == "Map" and m in ("filter", "map"))):
        exp = ("anyerr",)
    elif m == "reduce":
        seed_o = outs.get((3, None), "value")
        if seed_o.startswith("err:"):
            exp = ("err", seed_o[4:])
        else:
            acc = 7
            exp = None
            for i in range(n):
                o = oc(2, i)
                if o.startswith("err:"):
                    exp = ("err", o[4:])
                    break
                acc = acc * 10 + i + 1
            exp = exp or ("ok", f"Int({acc})")
    else:
        exp = None
        kept, count = [], 0
        for i in range(n):
            if m == "map" and nargs == 2:
                o = oc(1, i)
                if o.startswith("err:"):
                    exp = ("err", o[4:])
                    break
                kept.append(f"Int({i + 100})")
                continue
            o = oc(1, i)
            if o.startswith("err:"):
                exp = ("err", o[4:])
                break
            t = o.startswith("truthy")
            if m == "all" and not t:
                exp = ("ok", "Bool(false)")
                break
            if m == "exists" and t:
                exp = ("ok", "Bool(true)")
                break
            if m == "exists_one" and t:
                count += 1
                if count > 1:
                    exp = ("ok", "Bool(false)")
                    break
            if m == "filter" and t:
                kept.append(elem_dbg(i))
            if m == "map" and t:
                o2 = oc(2, i)
                if o2.startswith("err:"):
                    exp = ("err", o2[4:])
                    break
                kept.append(f"Int({i + 100})")
        if exp is None:
            exp = {"all": ("ok", "Bool(true)"), "exists": ("ok", "Bool(false)"), "exists_one": ("ok", f"Bool({'true' if count == 1 else 'false'})"),
                   "filter": ("ok", "List([" + ", ".join(kept) + "])"), "map": ("ok", "List([" + ", ".join(kept) + "])")}[m]
        if recv == "Map" and m == "map" and exp[0] == "ok" and exp[1].startswith("List"):
            raise KeyError("map over a map receiver: element values are keys (not modelled in the concrete reference)")
    return {"programs": [["main", src], ["after", "x"]], "run": ["main", "after"], "params": params}, exp, src


def agrees(result, exp):
    if exp[0] == "anyerr":
        return "err" in result
    if exp[0] == "err":
        return result.get("err") == exp[1]
    if exp[0] == "ok":
        return result.get("ok") == exp[1]
    return False


def replay_macros(exe, failures):
    kinds = probe_errors(exe)
    tried, batch, seen = [], [], set()
    # "on maps filter and map range over the keys in one fixed order": a counterexample on a map
    # receiver is confirmed by running the macro several times over a map that is built afresh at
    # every execution - two executions that disagree show that the order is the hash map's
    # "cyclic chains passing through macro bodies end in an error instead of exhausting the stack": a
    # counterexample of the depth obligation is confirmed by a program that refers to itself from the
    # body of that macro, run in a process of its own - the process dying is the violation
    for m in sorted({(f.get("scenario") or {}).get("macro") for f in failures if "call depth" in f.get("label", "")} - {None}):
        src = "[1].reduce(a, x, p, 0)" if m == "reduce" else f"[1].{m}(x, p)"
        import subprocess as _sp
        pr = _sp.run([exe, "eval"], input=json.dumps({"programs": [["p", src]], "run": ["p"], "params": {}}) + "\n", capture_output=True, text=True, timeout=120)
        rec = {"label": "reference cycle through the body of " + m, "source": "p := " + src, "native": {"returncode": pr.returncode, "stdout": pr.stdout[-200:], "stderr": pr.stderr[-200:]}}
        tried.append(rec)
        if pr.returncode != 0 or "panic" in pr.stdout:
            rec["reproduced"] = True
            return {"status": "reproduced", "summary": f"`p := {src}` evaluated through the public API kills the process ({pr.stderr.strip().splitlines()[-1] if pr.stderr.strip() else pr.returncode}): the cycle passes through a macro body, whose interpreter starts again at depth 0", "attempts": tried}
    for m in sorted({(f.get("scenario") or {}).get("macro") for f in failures if (f.get("scenario") or {}).get("receiver") == "Map"} & {"map", "filter"}):
        body = "k" if m == "map" else "true"
        src = "{'k0': x, 'k1': 1, 'k2': 2, 'k3': 3, 'k4': 4, 'k5': 5}." + m + "(k, " + body + ")"
        results, why = [], ""
        for _ in range(12):          # one process each: the hash seed is drawn per process / per map
            out, why = run(exe, "eval", [{"programs": [["main", src]], "run": ["main"], "params": {"x": 0}}])
            if out is None:
                break
            results.append(json.dumps(out[0].get("results", []), sort_keys=True))
        if not results:
            tried.append({"label": "key order", "skipped": why})
            continue
        rec = {"label": "key order of " + m + " over a map", "source": src, "native": results[:3], "distinct_results_in_12_runs": len(set(results))}
        tried.append(rec)
        if len(set(results)) > 1:
            rec["reproduced"] = True
            return {"status": "reproduced", "summary": f"`{src}` evaluated 12 times with the same binding gave {len(set(results))} different results: the keys are visited in the hash map's order, not in one fixed order", "attempts": tried}
    for f in failures:
        sc = f.get("scenario")
        if not sc or sc.get("unavailable") or sc.get("kind") != "macro":
            if len(tried) < 40:
                tried.append({"label": f["label"], "skipped": (sc or {}).get("unavailable", "no scenario")})
            continue
        try:
            req, exp, src = concrete_macro(sc, kinds)
        except KeyError as e:
            if len(tried) < 40:
                tried.append({"label": f["label"], "skipped": f"cannot concretise: {e}"})
            continue
        if src in seen:
            continue
        seen.add(src)
        batch.append((f["label"], req, exp, src))
    if batch:
        out, why = run(exe, "eval", [b[1] for b in batch])
        if out is None:
            return {"status": "unavailable", "summary": why, "attempts": tried}
        first = None
        for (label, req, exp, src), o in zip(batch, out):
            res = o.get("results", [{}, {}])
            main, after = res[0], res[1] if len(res) > 1 else {}
            rec = {"label": label, "source": src, "params": req["params"], "expected": exp, "native": main, "outer_x_afterwards": after}
            bad = "panic" in main or not agrees(main, exp) or after.get("ok") != "Int(1000)"
            if bad:
                rec["reproduced"] = True
                if first is None:
                    first = rec
            if bad or len(tried) < 40:
                tried.append(rec)
        if first is not None:
            return {"status": "reproduced", "summary": f"`{first['source']}` gave {first['native']}, the property demands {first['expected']}; outer x afterwards {first['outer_x_afterwards']}",
                    "attempts": tried, "concrete_instances_run": len(batch)}
        return {"status": "not_reproduced", "summary": f"none of {len(batch)} concrete instances disagreed natively", "attempts": tried, "concrete_instances_run": len(batch)}
    return {"status": "unavailable", "summary": "no scenario could be made concrete", "attempts": tried}


# ----------------------------------------------------------------------------- VM
def replay_vm(exe, failures):
    tried, batch, seen = [], [], set()
    for f in failures:
        sc = f.get("scenario")
        if not sc or sc.get("unavailable") or sc.get("kind") != "vm":
            if len(tried) < 40:
                tried.append({"label": f["label"], "skipped": (sc or {}).get("unavailable", "no scenario")})
            continue
        key = json.dumps(sc["request"], sort_keys=True)
        if key in seen:
            continue
        seen.add(key)
        batch.append((f["label"], sc["request"]))
    if not batch:
        return {"status": "unavailable", "summary": "no scenario could be made concrete", "attempts": tried}
    out, why = run(exe, "vm", [b[1] for b in batch])
    if out is None:
        return {"status": "unavailable", "summary": why, "attempts": tried}
    first = None
    for (label, req), o in zip(batch, out):
        rec = {"label": label, "request": req, "native": o}
        bad = "panic" in o or "panic" in o.get("vm", {}) or ("agree" in o and not o["agree"])
        if bad:
            rec["reproduced"] = True
            first = first or rec
        if bad or len(tried) < 40:
            tried.append(rec)
    if first is not None:
        o = first["native"]
        return {"status": "reproduced", "summary": f"VM {o.get('vm')} vs reference {o.get('reference')} on {json.dumps(first['request'])[:300]}", "attempts": tried, "concrete_instances_run": len(batch)}
    return {"status": "not_reproduced", "summary": f"VM and reference agreed natively on all {len(batch)} concrete instances", "attempts": tried, "concrete_instances_run": len(batch)}


def replay_eval(exe, failures):
    tried = []
    for f in failures:
        sc = f.get("scenario")
        if not sc or sc.get("kind") != "eval":
            continue
        out, why = run(exe, "eval", [sc["request"]])
        if out is None:
            tried.append({"label": f["label"], "skipped": why})
            continue
        got = (out[0].get("results") or [{}])[0]
        exp = sc["expected"]
        rec = {"label": f["label"], "request": sc["request"], "expected": exp, "native": got}
        tried.append(rec)
        ok = got.get("ok") == exp["ok"] if "ok" in exp else got.get("err") == exp.get("err")
        if "panic" in got or not ok:
            rec["reproduced"] = True
            return {"status": "reproduced", "summary": f"{sc['request']['programs']} with {sc['request'].get('params')} gave {got}, the property demands {exp}", "attempts": tried}
    ran = any("native" in t for t in tried)
    return {"status": "not_reproduced" if ran else "unavailable", "summary": "native results agree" if ran else "no scenario could be made concrete", "attempts": tried}


def replay_details(exe, failures):
    tried = []
    for f in failures:
        sc = f.get("scenario")
        if not sc or sc.get("kind") != "details":
            continue
        out, why = run(exe, "details", [sc["request"]])
        if out is None:
            tried.append({"label": f["label"], "skipped": why})
            continue
        got = out[0]
        rec = {"label": f["label"], "request": sc["request"], "expected": sc["expected"], "native": got}
        tried.append(rec)
        if "panic" in got or got.get("filtered") != sc["expected"]:
            rec["reproduced"] = True
            return {"status": "reproduced", "summary": f"filtering {sc['request']} left {got.get('filtered')}, the property demands {sc['expected']}", "attempts": tried}
    ran = any("native" in t for t in tried)
    return {"status": "not_reproduced" if ran else "unavailable", "summary": "native results agree" if ran else "no scenario could be made concrete", "attempts": tried}


KIND_EXPR = {"Int": "2", "UInt": "2u", "Float": "2.0", "Bool": "true", "String": "'UTC'", "Bytes": "b'ab'", "List": "[1, 2]", "Map": "{'a': 1}", "Null": "null",
             "TimeStamp": "timestamp('2024-01-02T03:04:05Z')", "Duration": "duration('1h')"}


def cel_name(dispatcher):
    m = dispatcher.replace("::methods::dispatch", "").replace("_methods::dispatch", "").split("::")[-1]
    if m.endswith("_type"):
        return m[:-5]
    special = {"uom": "uomConvert", "split_whitespace": "splitWhiteSpace"}
    if m in special:
        return special[m]
    parts = m.split("_")
    return parts[0] + "".join(p.capitalize() for p in parts[1:])


def replay_dispatch(exe, failures):
    tried, batch, seen = [], [], set()
    for f in failures:
        sc = f.get("scenario")
        if not sc or sc.get("kind") != "dispatch" or sc.get("expected") in (None, "unknown"):
            continue
        if sc["this"] not in KIND_EXPR or any(a not in KIND_EXPR for a in sc["args"]):
            continue
        name = cel_name(sc["dispatcher"])
        args = ", ".join(KIND_EXPR[a] for a in sc["args"])
        src = f"{name}({args})" if sc["this"] == "Null" else f"({KIND_EXPR[sc['this']]}).{name}({args})"
        if src in seen:
            continue
        seen.add(src)
        batch.append((f["label"], src, sc["expected"]))
    if not batch:
        return {"status": "unavailable", "summary": "no scenario could be made concrete", "attempts": tried}
    out, why = run(exe, "eval", [{"programs": [["main", b[1]]], "run": ["main"], "params": {}} for b in batch])
    if out is None:
        return {"status": "unavailable", "summary": why}
    first = None
    for (label, src, exp), o in zip(batch, out):
        got = (o.get("results") or [{}])[0]
        if exp == "rejected":
            bad = "ok" in got or "panic" in got
        else:
            bad = "panic" in got or got.get("err") == "Argument"
        rec = {"label": label, "source": src, "expected": exp, "native": got}
        if bad:
            rec["reproduced"] = True
            first = first or rec
        if bad or len(tried) < 30:
            tried.append(rec)
    if first:
        return {"status": "reproduced", "summary": f"`{first['source']}` gave {first['native']}; by the overloads' signatures the call is {first['expected']}", "attempts": tried, "concrete_instances_run": len(batch)}
    return {"status": "not_reproduced", "summary": f"none of {len(batch)} concrete calls disagreed natively", "attempts": tried, "concrete_instances_run": len(batch)}


TOKEN_TEXT = {"OrOr": "||", "AndAnd": "&&", "LessThan": "<", "LessEqual": "<=", "EqualEqual": "==", "NotEqual": "!=", "GreaterEqual": ">=", "GreaterThan": ">", "In": "in",
              "Add": "+", "Minus": "-", "Multiply": "*", "Divide": "/", "Mod": "%", "LParen": "(", "RParen": ")", "Question": "?", "Colon": ":", "Not": "!", "Dot": ".",
              "LBracket": "[", "RBracket": "]", "Comma": ",", "LBrace": "{", "RBrace": "}", "Null": "null"}
TOKEN_PREC = {"||": 1, "&&": 2, "<": 3, "<=": 3, "==": 3, "!=": 3, ">=": 3, ">": 3, "in": 3, "+": 4, "-": 4, "*": 5, "/": 5, "%": 5}


def json_shape(node):
    """grouping of a serialized syntax tree: ('leaf', name) | ('bin', l, r) | ('paren', x) | other"""
    if isinstance(node, dict):
        if "loc" in node and "node" in node and len(node) == 2:
            return json_shape(node["node"])
        if "Binary" in node:
            b = node["Binary"]
            return ("bin", b.get("op"), json_shape(b["lhs"]), json_shape(b["rhs"]))
        if "Ident" in node and isinstance(node["Ident"], str):
            return ("leaf", node["Ident"])
        if "Parens" in node:
            return ("paren", json_shape(node["Parens"]))
        if "primary" in node:
            return json_shape(node["primary"]) if not node.get("member") else ("member", json_shape(node["primary"]), len(node["member"]))
        if len(node) == 1:
            return json_shape(next(iter(node.values())))
    return ("other", str(node)[:40])


def expected_shape(tokens):
    """precedence-climbing over the token list (identifiers, binary operators, parentheses)"""
    pos = [0]

    def primary():
        t = tokens[pos[0]]
        pos[0] += 1
        if t == "(":
            e = expr(1)
            pos[0] += 1
            return ("paren", e)
        return ("leaf", t)

    def expr(minp):
        lhs = primary()
        while pos[0] < len(tokens) and tokens[pos[0]] in TOKEN_PREC and TOKEN_PREC[tokens[pos[0]]] >= minp:
            op = tokens[pos[0]]
            pos[0] += 1
            rhs = expr(TOKEN_PREC[op] + 1)
            lhs = ("bin", lhs, rhs)
        return lhs
    return expr(1)


def drop_ops(s):
    if s[0] == "bin":
        return ("bin", drop_ops(s[-2]), drop_ops(s[-1]))
    if s[0] == "paren":
        return ("paren", drop_ops(s[1]))
    return s


def replay_tokens(exe, failures):
    tried, seen = [], set()
    for f in failures:
        sc = f.get("scenario")
        if not sc or sc.get("kind") != "tokens":
            continue
        words = []
        for t in sc["tokens"]:
            if t[0] == "Ident":
                words.append(t[1])
            elif t[0] == "IntLit":
                words.append(str(t[1]))
            elif t[0] in TOKEN_TEXT:
                words.append(TOKEN_TEXT[t[0]])
            else:
                words = None
                break
        if not words:
            continue
        src = " ".join(words)
        if src in seen:
            continue
        seen.add(src)
        names = sorted({t[1] for t in sc["tokens"] if t[0] == "Ident"})
        out, why = run(exe, "parse", [{"source": src, "params": {n: i + 2 for i, n in enumerate(names)}}])
        if out is None:
            tried.append({"label": f["label"], "skipped": why})
            continue
        got = out[0]
        rec = {"label": f["label"], "source": src, "native": {k: got.get(k) for k in ("error", "params", "result", "bytecode")}}
        bad = None
        ints = [t[1] for t in sc["tokens"] if t[0] == "IntLit"]
        if "panic" in got:
            bad = "the parser panicked"
        elif ints and any(v > (1 << 63) - 1 for v in ints):
            if "error" not in got:
                bad = f"an integer literal above the int64 range was accepted: {got.get('result')}"
        elif len(sc["tokens"]) == 1 and ints:
            if got.get("result", {}).get("ok") != f"Int({ints[0]})":
                bad = f"the literal {ints[0]} evaluated to {got.get('result')}"
        elif "error" in got:
            bad = f"a well-formed expression was rejected: {got.get('debug')}"
        elif len(words) == 5 and words[1] == "?" and words[3] == ":":
            # c ? x : y with c bound to the (truthy) int 2: the truthiness of c selects x
            binding = {n: i + 2 for i, n in enumerate(names)}
            want = f"Int({binding[words[2]]})"
            if got.get("result", {}).get("ok") != want:
                bad = f"with {binding} the conditional evaluated to {got.get('result')}, the truthiness of {words[0]} selects {words[2]} = {want}"
        else:
            want = drop_ops(expected_shape(words))
            have = drop_ops(json_shape(got.get("ast")))
            rec["expected_grouping"], rec["native_grouping"] = str(want), str(have)
            if want != have:
                bad = f"grouping {have}, the grammar gives {want}"
            elif got.get("params") != names:
                bad = f"parameter list {got.get('params')}, identifiers {names}"
        tried.append(rec)
        if bad:
            rec["reproduced"] = True
            return {"status": "reproduced", "summary": f"`{src}`: {bad}", "attempts": tried}
    ran = any("native" in t for t in tried)
    return {"status": "not_reproduced" if ran else "unavailable", "summary": "the native parser agrees on every concrete token sequence" if ran else "no scenario could be made concrete", "attempts": tried}


def replay_value(exe, failures):
    tried = []
    for f in failures:
        sc = f.get("scenario")
        if not sc or sc.get("unavailable") or sc.get("kind") != "value":
            tried.append({"label": f["label"], "skipped": (sc or {}).get("unavailable", "no scenario")})
            continue
        out, why = run(exe, "vm", [sc["request"]])
        if out is None:
            tried.append({"label": f["label"], "skipped": why})
            continue
        got, exp = out[0].get("vm", out[0]), sc["expected"]
        rec = {"label": f["label"], "request": sc["request"], "expected": exp, "native": got}
        tried.append(rec)
        ok = ("err" in got) if "anyerr" in exp else (got.get("ok") == exp["ok"] if "ok" in exp else got.get("err") == exp["err"])
        if "panic" in got or not ok:
            rec["reproduced"] = True
            return {"status": "reproduced", "summary": f"{json.dumps(sc['request']['instrs'])[:300]} gave {got}, the property demands {exp}", "attempts": tried}
    ran = any("native" in t for t in tried)
    return {"status": "not_reproduced" if ran else "unavailable", "summary": "native results agree with the property on every concrete instance" if ran else "no scenario could be made concrete", "attempts": tried}


def replay_resolve(exe, failures):
    tried = []
    for f in failures:
        sc = f.get("scenario")
        if not sc or sc.get("unavailable") or sc.get("kind") != "resolve":
            tried.append({"label": f["label"], "skipped": (sc or {}).get("unavailable", "no scenario")})
            continue
        out, why = run(exe, "resolve", [sc["request"]])
        if out is None:
            tried.append({"label": f["label"], "skipped": why})
            continue
        got = out[0]
        rec = {"label": f["label"], "request": sc["request"], "expected": sc["expected"], "native": got}
        tried.append(rec)
        if "panic" in got or got.get("resolved") != sc["expected"]:
            rec["reproduced"] = True
            return {"status": "reproduced", "summary": f"resolve({json.dumps(sc['request']['points'])}) gave {got}, the property demands {sc['expected']}", "attempts": tried}
    ran = any("native" in t for t in tried)
    return {"status": "not_reproduced" if ran else "unavailable", "summary": "native results agree" if ran else "no scenario could be made concrete", "attempts": tried}


def replay_chain(exe, failures):
    """a counterexample whose run starts at a call depth of 1..=16 (where evaluation must still work):
    confirm with a chain of stored programs that deep, evaluated through the public API"""
    depths = sorted({(f.get("scenario") or {}).get("depth_on_entry") for f in failures} - {None})
    depths = [d for d in depths if 1 <= d <= 16]
    if not depths:
        return {"status": "unavailable", "summary": "no counterexample inside the depth range that must evaluate"}
    d = 16          # the depth the statement names: chains at least 16 deep evaluate
    progs = [[f"p{i}", f"p{i + 1}"] for i in range(d)] + [[f"p{d}", "1"]]
    out, why = run(exe, "eval", [{"programs": progs, "run": ["p0"], "params": {}}])
    if out is None:
        return {"status": "unavailable", "summary": why}
    res = out[0].get("results", [{}])[0]
    rec = {"label": f"reference chain {d} deep", "programs": f"p0 := p1, .., p{d} := 1", "native": res}
    if res.get("ok") != "Int(1)":
        return {"status": "reproduced", "summary": f"a chain of {d} references between stored programs (p0 := p1, .., p{d} := 1) does not evaluate: {res}; chains at least 16 deep must", "attempts": [rec]}
    return {"status": "not_reproduced", "summary": f"a reference chain {d} deep evaluates natively", "attempts": [rec]}


def replay_depth(exe, failures):
    """the symbolic run found an exit path of run_raw that does not release the call-depth counter:
    confirm with evaluations whose nested runs take that kind of exit more often than the limit"""
    miss = ", ".join(f"m{i}" for i in range(40))
    nulls = ", ".join("null" for _ in range(40))
    progs = [["leak_on_error", f"coalesce({miss}, 7)"], ["leak_on_value", f"coalesce({nulls}, 7)"],
             ["leak_in_has", "[" + ", ".join(f"has(m{i})" for i in range(40)) + "].size()"]]
    out, why = run(exe, "eval", [{"programs": progs, "run": [p[0] for p in progs], "params": {}}])
    if out is None:
        return {"status": "unavailable", "summary": why}
    res = out[0].get("results", [])
    want = ["Int(7)", "Int(7)", "UInt(40)"]
    rec = {"programs": progs, "native": res, "expected": want}
    bad = [(p[0], r) for p, r, w in zip(progs, res, want) if r.get("ok") != w and not (w == "UInt(40)" and r.get("ok") in ("UInt(40)", "Int(40)"))]
    if bad:
        return {"status": "reproduced", "summary": f"{bad[0][0]}: 40 sibling evaluations exhaust the depth budget: {bad[0][1]}", "attempts": [rec]}
    return {"status": "not_reproduced", "summary": "sibling evaluations did not consume the depth budget natively", "attempts": [rec]}


SERDE_SOURCES = {
    ("CelValue", "Err"): ["1 / 0", "[1, 1 / 0]"], ("CelValue", "Int"): ["1 + 2"], ("CelValue", "UInt"): ["1u + 2u"], ("CelValue", "Float"): ["1.5 + 1.0"],
    ("CelValue", "Bool"): ["!false"], ("CelValue", "String"): ["'a' + 'b'"], ("CelValue", "Bytes"): ["b'ab'"], ("CelValue", "List"): ["[1, 2] + [3]"],
    ("CelValue", "Map"): ["{'a': 1}"], ("CelValue", "Null"): ["null"], ("CelValue", "Ident"): ["x + 1"], ("CelValue", "Type"): ["type(1)"],
    ("CelValue", "TimeStamp"): ["timestamp('2024-01-01T00:00:00Z')"], ("CelValue", "Duration"): ["duration('1s')"], ("CelValue", "ByteCode"): ["[1, 2].map(y, y + x)"],
    ("CelError", None): ["1 / 0", "[1][5]", "1 < 'a'", "size(1, 2)", "{'a': 1}.b", "int('x')"],
    ("ByteCode", None): ["x + 1 - 2 * 3 / 4 % 5", "x < 1 || x <= 2 && x == 3 || x != 4 || x >= 5 || x > 6", "x in [1, 2]", "!(x == 1) ? -x : [x, 2][0]", "{'a': x}.a", "[1, 2].map(y, y + x)", "f'{x}a'", "size([x])"],
    ("JmpWhen", None): ["x == 1 || x == 2", "x == 1 && x == 2", "x == 1 ? 2 : 3"],
}


def replay_serde(exe, failures):
    tried = []
    for f in failures:
        sc = f.get("scenario")
        if not sc or sc.get("kind") != "serde":
            continue
        srcs = SERDE_SOURCES.get((sc["enum"], sc["variant"])) or SERDE_SOURCES.get((sc["enum"], None))
        if not srcs:
            tried.append({"label": f["label"], "skipped": f"no source known that puts a {sc['enum']}::{sc['variant']} into a compiled program"})
            continue
        out, why = run(exe, "serde", [{"sources": srcs}])
        if out is None:
            tried.append({"label": f["label"], "skipped": why})
            continue
        rts = out[0].get("round_trips", [])
        rec = {"label": f["label"], "round_trips": rts}
        tried.append(rec)
        bad = [r for r in rts if r.get("bincode", {}).get("status") not in ("ok", None) or r.get("json", {}).get("status") not in ("ok", None)]
        if bad:
            rec["reproduced"] = True
            b = bad[0]
            return {"status": "reproduced", "summary": f"program `{b['source']}`: bincode {b.get('bincode')}, json {b.get('json')}", "attempts": tried}
    ran = any("round_trips" in t for t in tried)
    return {"status": "not_reproduced" if ran else "unavailable", "summary": "round trips agree natively" if ran else "no scenario could be made concrete", "attempts": tried}


def expected_token(text):
    """what the literal `text` spells, computed here in python (independent of rscel);
    None when the text is not one well-formed numeric or string literal"""
    import re as _re
    import struct
    line = text.count("\n")
    col = len(text) - (text.rfind("\n") + 1)
    span = [0, 0, line, col]
    m = _re.fullmatch(r"0[xX]([0-9a-fA-F]+)([uU]?)", text)
    if m:
        v = int(m.group(1), 16)
        return {"error": True} if v >= 1 << 64 else {"kind": "UIntLit" if m.group(2) else "IntLit", "value": str(v), "span": span}
    m = _re.fullmatch(r"([0-9]+)([uU]?)", text)
    if m:
        v = int(m.group(1))
        return {"error": True} if v >= 1 << 64 else {"kind": "UIntLit" if m.group(2) else "IntLit", "value": str(v), "span": span}
    if _re.fullmatch(r"[0-9]+(\.[0-9]+)?([eE][+-]?[0-9]+)?", text) and _re.search(r"[.eE]", text):
        try:
            bits = struct.unpack("<Q", struct.pack("<d", float(text)))[0]
        except OverflowError:
            return None
        return {"kind": "FloatLit", "bits": str(bits), "span": span}
    if len(text) >= 3 and text[0] == "r" and text[1] in "\"'":
        body = text[2:]
        k = body.find(text[1])
        if k < 0:
            return {"error": True}
        return {"kind": "StringLit", "chars": [ord(c) for c in body[:k]], "span": span} if k == len(body) - 1 else None
    bytes_lit = len(text) >= 3 and text[0] == "b" and text[1] in "\"'"
    if bytes_lit or (len(text) >= 2 and text[0] in "\"'"):
        q, i, out = (text[1], 2, []) if bytes_lit else (text[0], 1, [])
        simple = {"a": 7, "b": 8, "f": 12, "n": 10, "r": 13, "t": 9, "v": 11, "\\": 92, "'": 39, '"': 34}
        while True:
            if i >= len(text):
                return {"error": True}
            c = text[i]
            if c == q:
                if i != len(text) - 1:
                    return None
                return {"kind": "ByteStringLit", "bytes": out, "span": span} if bytes_lit else {"kind": "StringLit", "chars": out, "span": span}
            if c != "\\":
                out.extend(list(c.encode("utf-8"))) if bytes_lit else out.append(ord(c))
                i += 1
                continue
            if i + 1 >= len(text):
                return {"error": True}
            e = text[i + 1]
            i += 2
            if e in simple:
                out.append(simple[e])
                continue
            w = {"x": 2, "X": 2, "u": 4, "U": 8}.get(e)
            if bytes_lit and e in "uU":
                return None
            if w:
                d = text[i:i + w]
                if len(d) < w or not _re.fullmatch(r"[0-9a-fA-F]+", d):
                    return {"error": True}
                v = int(d, 16)
                if v >= 0x110000 or 0xD800 <= v < 0xE000:
                    return {"error": True}
                out.append(v)
                i += w
                continue
            if e.isdigit():
                d = e + text[i:i + 2]
                if len(d) < 3 or not _re.fullmatch(r"[0-7]{3}", d):
                    return {"error": True}
                if int(d, 8) > 0o377:
                    return {"error": True} if bytes_lit else None
                out.append(int(d, 8))
                i += 2
                continue
            return None
    return None


def replay_literal(exe, failures):
    tried = []
    for f in failures:
        sc = f.get("scenario")
        if not sc or sc.get("kind") != "literal":
            continue
        exp = expected_token(sc["text"])
        if exp is None:
            tried.append({"label": f["label"], "text": sc["text"], "skipped": "the statement does not say what this text denotes"})
            continue
        out, why = run(exe, "token", [{"text": sc["text"]}])
        if out is None:
            tried.append({"label": f["label"], "skipped": why})
            continue
        got = out[0]
        rec = {"label": f["label"], "text": sc["text"], "expected": exp, "native": got}
        tried.append(rec)
        if "error" in got and got.get("at") is not None:
            # a syntax error points inside the source or immediately at the end of one of its lines
            lines = sc["text"].split("\n")
            l, c = got["at"]
            if not (l < len(lines) and c <= len(lines[l])):
                rec["reproduced"] = True
                return {"status": "reproduced", "summary": f"literal {sc['text']!r}: the syntax error is reported at line {l}, column {c}, outside the source", "attempts": tried}
        if "error" in exp:
            ok = "error" in got
        else:
            ok = all(got.get(k) == v for k, v in exp.items()) and not got.get("more")
        if "panic" in got or not ok:
            rec["reproduced"] = True
            return {"status": "reproduced", "summary": f"literal {sc['text']!r}: tokenizer gave {got}, the literal spells {exp}", "attempts": tried}
    ran = any("native" in t for t in tried)
    return {"status": "not_reproduced" if ran else "unavailable", "summary": "the tokenizer agrees natively on every concrete literal" if ran else "no scenario could be made concrete", "attempts": tried}


def replay_clock(exe, failures):
    """a call that reads the clock must stay a call in the compiled program: compile `name()` and look
    for the CALL; a program without it has the time of compilation frozen in (two executions
    then also return the very same instant)"""
    tried = []
    for f in failures:
        sc = f.get("scenario")
        if not sc or sc.get("kind") != "clock":
            continue
        name = sc["call"].split("(")[0]
        src = f"{name}()"
        out, why = run(exe, "parse", [{"source": src, "params": {}}, {"source": src, "params": {}}])
        if out is None:
            tried.append({"label": f["label"], "skipped": why})
            continue
        rec = {"label": f["label"], "source": src, "native": {"bytecode": out[0].get("bytecode"), "result": out[0].get("result")}}
        tried.append(rec)
        bc = out[0].get("bytecode") or ""
        if "error" not in out[0] and "CALL" not in bc and "TimeStamp(" in bc:
            rec["reproduced"] = True
            return {"status": "reproduced", "summary": f"`{src}` compiles to the constant `{bc.strip()}`: the time of compilation is frozen into the program", "attempts": tried}
    ran = any("native" in t for t in tried)
    return {"status": "not_reproduced" if ran else "unavailable", "summary": "the compiled programs keep the call" if ran else "no scenario could be made concrete", "attempts": tried}


def main():
    rec_path, out_path, repo, kani_dir, cache = sys.argv[1:6]
    rec = json.load(open(rec_path))
    exe, why = build(kani_dir, cache)
    if exe is None:
        json.dump({"status": "unavailable", "summary": "native build failed: " + why[-300:]}, open(out_path, "w"))
        return
    fails = rec.get("failures", [])
    r = None
    if any((f.get("scenario") or {}).get("kind") == "depth_probe" for f in fails):
        r = replay_depth(exe, fails)
        if r["status"] != "reproduced" and any((f.get("scenario") or {}).get("kind") == "vm" for f in fails):
            r2 = replay_vm(exe, fails)
            r = r2 if r2["status"] == "reproduced" else r
    elif any((f.get("scenario") or {}).get("kind") == "vm" for f in fails):
        r = replay_vm(exe, fails)
        if r["status"] != "reproduced":
            r2 = replay_chain(exe, fails)
            r = r2 if r2["status"] == "reproduced" else r
    elif any((f.get("scenario") or {}).get("kind") == "sql" for f in fails):
        from replay_sql import replay_sql, build_sql
        exe_sql, why = build_sql(repo, cache)
        r = replay_sql(exe_sql, fails) if exe_sql else {"status": "unavailable", "summary": "native build of the translator failed: " + why[-300:]}
    elif any((f.get("scenario") or {}).get("kind") == "clock" for f in fails):
        r = replay_clock(exe, fails)
    elif any((f.get("scenario") or {}).get("kind") == "grammar" for f in fails):
        from replay_grammar import replay_grammar
        r = replay_grammar(run, exe, fails)
    elif any((f.get("scenario") or {}).get("kind") == "tokens" for f in fails):
        r = replay_tokens(exe, fails)
        if r["status"] != "reproduced":
            from replay_grammar import replay_grammar
            r2 = replay_grammar(run, exe, fails)
            r = r2 if r2["status"] == "reproduced" else r
    elif any((f.get("scenario") or {}).get("kind") == "dispatch" for f in fails):
        r = replay_dispatch(exe, fails)
    elif any((f.get("scenario") or {}).get("kind") == "details" for f in fails):
        r = replay_details(exe, fails)
    elif any((f.get("scenario") or {}).get("kind") == "eval" for f in fails):
        r = replay_eval(exe, fails)
    elif any((f.get("scenario") or {}).get("kind") == "literal" for f in fails):
        r = replay_literal(exe, fails)
    elif any((f.get("scenario") or {}).get("kind") == "serde" for f in fails):
        r = replay_serde(exe, fails)
    elif any((f.get("scenario") or {}).get("kind") == "resolve" for f in fails):
        r = replay_resolve(exe, fails)
    elif any((f.get("scenario") or {}).get("kind") == "value" for f in fails):
        r = replay_value(exe, fails)
    else:
        r = replay_macros(exe, fails)
    json.dump(r, open(out_path, "w"), indent=1)


if __name__ == "__main__":
    main()
