"""Targets: one run of the bytecode VM (`Interpreter::run_raw`) on program templates with
symbolic operands, compared with a reference stack machine written from the properties.

What is executed symbolically is the MIR of `Interpreter::run_raw` together with the MIR of
InterpStack::{push, push_val, pop, pop_val, pop_noresolve, pop_tryresolve},
CelStackValue::{into_value, as_value, try_into, into}, CelByteCode::{len, index},
JmpWhen::{as_bool, eq}, Interpreter::{checked_jump_target, get_*_by_name, callable_by_name,
call_macro, resolve_args}, CelValue::{is_err, into_result, from_*}, ScopedCounter::{inc,
count, drop} and the CelError constructors (all *inlined* from the dump).

The value operations (`+`, `<`, `or`, `index`, `in_`, `!`, ...), `is_truthy`, `as_type`,
`construct_type`, bound functions and macros are *uninterpreted*: each call returns an
arbitrary value and is logged, so the check is about which operation the VM applies to which
operands in which order, what it leaves on the stack and where control goes next - for every
operand value.  Name lookups (type / variable / function / macro / stored program) are an
arbitrary but fixed environment: each lookup of a name returns an arbitrary `Option` that is
the same whenever that name is looked up again.
"""
import re
import z3

import engine
import models
from engine import VAdt, VBool, VInt, VOpaque, VRef, VSeq, VStruct, VTuple, VUnit, Event, base_ty, vcopy, norm_ty
from specutil import is_variant, run_reference, vid_of

DEPTH_MUST_RUN = 17   # "reference chains at least 16 deep evaluate correctly": 16 references = 17 nested activations
DEPTH_MUST_FAIL = 128  # generous cap for "too-deep chains end in an error" (the statement names no number)

BINOPS = {  # opcode -> uninterpreted operation the VM must apply to (lhs, rhs)
    "Or": "CelValue::or", "And": "CelValue::and", "Add": "<CelValue as Add>::add", "Sub": "<CelValue as Sub>::sub",
    "Mul": "<CelValue as Mul>::mul", "Div": "<CelValue as Div>::div", "Mod": "<CelValue as Rem>::rem",
    "Lt": "CelValue::lt", "Le": "CelValue::le", "Eq": "<CelValue as CelValueDyn>::eq", "Ne": "CelValue::neq",
    "Ge": "CelValue::ge", "Gt": "CelValue::gt", "In": "CelValue::in_", "Index": "CelValue::index",
}
UNOPS = {"Not": "<CelValue as Not>::not", "Neg": "<CelValue as Neg>::neg"}


class RefMismatch(Exception):
    pass


class RefOutside(Exception):
    """the reference does not define this situation (outside the claim)"""


# ----------------------------------------------------------------------------- environment / logging models
def env_lookup(ex, kind, name_vid, ret_ty):
    key = ("env", kind, name_vid)
    if key not in ex.lazy:
        ex.lazy[key] = ex.fresh(ret_ty, tag=f"{kind}[{name_vid}]")
    return vcopy(ex.lazy[key])


ENV_TYPES = {
    "type": "Option<&CelValue>", "param": "Option<&CelValue>",
    "func": "Option<&dyn Fn(CelValue, Vec<CelValue>) -> CelValue>",
    "macro": "Option<&dyn Fn(&Interpreter, CelValue, &[&CelByteCode]) -> CelValue>",
    "program": "Option<&Program>",
}


def m_env(kind):
    def model(ex, callee, args, ret_ty, frame):
        ex.used["modelled"].add(f"{callee} (fixed arbitrary environment)")
        return env_lookup(ex, kind, vid_of(ex, args[1]), ENV_TYPES[kind])
    return model


def m_bytecode_of(ex, callee, args, ret_ty, frame):
    pv = vid_of(ex, args[0])
    key = ("env", "code", pv)
    if key not in ex.lazy:
        ex.lazy[key] = VRef(ex.heap(VOpaque("CelByteCode", ex.new_vid(), f"bytecode of program {pv}"), "code"))
    return ex.lazy[key]


def m_nested_run(ex, callee, args, ret_ty, frame):
    extra = {"interp": vid_of(ex, args[0]), "code": vid_of(ex, args[1]), "resolve": args[2].concrete() if isinstance(args[2], VBool) else None}
    return ex.havoc("run_raw", args, ret_ty, extra)


def m_value_op(ex, callee, args, ret_ty, frame):
    ids = [vid_of(ex, a) for a in args]
    return ex.havoc(callee, args, ret_ty, {"ids": ids})


def m_is_truthy(ex, callee, args, ret_ty, frame):
    v = models.deref(ex, args[0])
    b = __import__("t_macros").truthy_of(ex, v.vid, v)
    ex.used["havocked"].add("CelValueDyn::is_truthy")
    return VBool(b)


def truthy_of(ex, vid):
    if vid not in ex.truthy_memo:
        ex.truthy_memo[vid] = z3.Bool(f"truthy@{vid}")
    return ex.truthy_memo[vid]


def m_dyn_call(ex, callee, args, ret_ty, frame):
    tup = args[1]
    ids = [vid_of(ex, a) if not isinstance(a, VSeq) else [vid_of(ex, x) for x in a.items] for a in tup.items]
    kind = "call_macro" if "Interpreter" in callee else "call_fn"
    if kind == "call_macro":
        # (&interp, this, &[&code]) : identify the code blocks
        sl = models.deref(ex, tup.items[2])
        ids = [vid_of(ex, tup.items[0]), vid_of(ex, tup.items[1]), [vid_of(ex, x) for x in sl.items] if isinstance(sl, VSeq) else None]
    return ex.havoc(kind, args, ret_ty, {"callee": vid_of(ex, args[0]), "ids": ids})


def m_construct_type(ex, callee, args, ret_ty, frame):
    a = args[1]
    return ex.havoc("construct_type", args, ret_ty, {"type": vid_of(ex, args[0]), "ids": [vid_of(ex, x) for x in a.items] if isinstance(a, VSeq) else None})


def m_push_str(ex, callee, args, ret_ty, frame):
    s = models.deref(ex, args[0])
    piece = vid_of(ex, args[1])
    if isinstance(s, VOpaque):
        parts = ex.lazy.setdefault(("concat", id(s)), [])
    # strings under construction are modelled as the list of the pieces appended
    root = args[0]
    cur = ex.read(root.root, root.path)
    if not isinstance(cur, VStruct) or base_ty(cur.ty) != "StrBuild":
        raise engine.Unsupported("push_str on a string the model did not create")
    cur.fields.append(VOpaque("String", piece, "piece"))
    return VUnit()


def m_string_new(ex, callee, args, ret_ty, frame):
    return VStruct("StrBuild", [], ex.new_vid())


def m_map_get(ex, callee, args, ret_ty, frame):
    """HashMap::get on a symbolic map: arbitrary but fixed per (map, key)"""
    mv = models.deref(ex, args[0])
    ex.used["modelled"].add("HashMap::get (arbitrary but fixed per map and key)")
    return env_lookup(ex, "mapget:%s" % getattr(mv, "vid", None), vid_of(ex, args[1]), "Option<&CelValue>")


def m_dyn_access(ex, callee, args, ret_ty, frame):
    return ex.havoc("dyn_access", args, ret_ty, {"ids": [vid_of(ex, args[0]), vid_of(ex, args[1])]})


VM_CFG = dict(
    inline=[r"^InterpStack::", r"CelStackValue", r"^CelByteCode::len$", r"<CelByteCode as Index", r"^JmpWhen::", r"<JmpWhen as PartialEq",
            r"checked_jump_target", r"^CelValue::(is_err|into_result|from_err|from_null|true_|false_|from_bool|from_ident|from_list|from_map)$",
            r"^ScopedCounter", r"^CelError::\w+$", r"^Interpreter::\w+$",
            r"<CelValue as From<(bool|CelError|HashMap<String, CelValue>)>>::from", r"^RsCallable::"],
    opaque_types=("CelContext", "BindContext", "HashMap", "String", "CelBytes", "DateTime", "Duration", "Arc", "Program", "CelByteCode"),
    models=[
        (r"^BindContext::get_type$", m_env("type")), (r"^BindContext::get_param$", m_env("param")),
        (r"^BindContext::get_func$", m_env("func")), (r"^BindContext::get_macro$", m_env("macro")),
        (r"^CelContext::get_program$", m_env("program")), (r"^Program::bytecode$", m_bytecode_of),
        (r"^Interpreter::run_raw$", m_nested_run),
        (r"is_truthy$", m_is_truthy),
        (r"^(CelValue::(or|and|lt|le|gt|ge|neq|in_|index)|<CelValue as (Add|Sub|Mul|Div|Rem|Not|Neg|CelValueDyn)>::(add|sub|mul|div|rem|not|neg|eq))$", m_value_op),
        (r"^<dyn Fn\(", m_dyn_call),
        (r"^construct_type$", m_construct_type),
        (r"^String::push_str$", m_push_str), (r"^String::new$", m_string_new),
        (r"^HashMap(::)?(<.*>)?::get(::<.*>)?$", m_map_get),
        (r"^<dyn CelValueDyn as CelValueDyn>::access$", m_dyn_access),
        (r"^<Vec<CelValue> as Into<CelValue>>::into$", lambda ex, c, a, r, f: __import__("t_macros").m_vec_into_celvalue(ex, c, a, r, f)),
    ],
    seq_bound=2,
    loop_bound=10,
    max_call_depth=14,
    inline_default=True,
    keep_uninterpreted=[r"^<CelValue as ", r"^CelValue::(as_type|or|and|lt|le|gt|ge|neq|in_|index|ord|eq|is_truthy)$", r"^construct_type$", r"^(BindContext|CelContext|Program)::"],
)


# ----------------------------------------------------------------------------- program templates
def bc(ex, name, *fields):
    T = ex.P.types
    idx = T.variant_index("ByteCode", name)
    return VAdt("ByteCode", idx, {idx: list(fields)}, ex.new_vid())


def sym_value(ex, tag, exclude=()):
    v = ex.fresh("CelValue", tag)
    for name in exclude:
        ex.assume(z3.Not(is_variant(ex, v, name)))
    return v


def mk_interp(ex):
    d0 = ex.fresh("usize", "depth0")
    ex.assume(z3.ULE(d0.bv, 200))
    interp = VStruct("Interpreter", [ex.fresh("Option<&CelContext>", "cel"), ex.fresh("Option<&BindContext>", "bindings"),
                                      VStruct("ScopedCounter", [VStruct("RefCell", [d0])], ex.new_vid())], ex.new_vid())
    ex.notes["depth0"] = d0
    ex.notes["interp"] = interp
    return VRef(ex.heap(interp, "interp"))


def template(build):
    def make_args(ex, func):
        ir = mk_interp(ex)
        instrs = build(ex)
        resolve = ex.fresh_bool("resolve")
        prog = VStruct("CelByteCode", [VSeq("ByteCode", len(instrs), instrs, ex.new_vid())], ex.new_vid())
        ex.notes.update(prog=instrs, interp_ref=ir, resolve=resolve.b)
        return [ir, VRef(ex.heap(prog, "prog")), resolve]
    return make_args


def sym_op(ex, names, tag="op"):
    """an instruction whose opcode is symbolic among `names` (all without operands)"""
    T = ex.P.types
    d = z3.BitVec(ex.fresh_name(tag + ".d"), 64)
    ex.assume(z3.Or([d == T.variant_index("ByteCode", n) for n in names]))
    return VAdt("ByteCode", d, {}, ex.new_vid())


NOT_IDENT = ("Ident",)


def t_binops(ex):
    a, b = sym_value(ex, "a", NOT_IDENT), sym_value(ex, "b", NOT_IDENT)
    return [bc(ex, "Push", a), bc(ex, "Push", b), sym_op(ex, list(BINOPS))]


def t_two_ops(ex):
    """thorough tier: two consecutive binary operations on three operands"""
    a, b, c = (sym_value(ex, n, NOT_IDENT + ("Err",)) for n in "abc")
    ops = ["Sub", "Lt", "Or", "Index"]
    return [bc(ex, "Push", a), bc(ex, "Push", b), bc(ex, "Push", c), sym_op(ex, ops, "op1"), sym_op(ex, ops, "op2")]


def t_unops(ex):
    a, z = sym_value(ex, "a", NOT_IDENT), sym_value(ex, "z", NOT_IDENT)
    return [bc(ex, "Push", z), bc(ex, "Push", a), sym_op(ex, ["Not", "Neg", "Test", "Dup", "Pop"])]


def t_resolve(ex):
    """an operand that may be an identifier: resolution order type > variable > stored program"""
    a = sym_value(ex, "a")
    return [bc(ex, "Push", a), sym_op(ex, ["Not", "Test"])]


def t_jmpcond(ex):
    c = sym_value(ex, "c", NOT_IDENT)
    when = ex.fresh("JmpWhen", "when")
    dist = ex.fresh("i32", "dist")
    xs = [sym_value(ex, f"x{i}", NOT_IDENT) for i in range(3)]
    return [bc(ex, "Push", c), bc(ex, "JmpCond", when, dist)] + [bc(ex, "Push", x) for x in xs]


def t_jmp(ex):
    dist = ex.fresh("i32", "dist")
    xs = [sym_value(ex, f"x{i}", NOT_IDENT) for i in range(3)]
    return [bc(ex, "Push", xs[0]), bc(ex, "Jmp", dist), bc(ex, "Push", xs[1]), bc(ex, "Push", xs[2])]


def t_mklist(ex):
    n = ex.fresh("u32", "n")
    ex.assume(z3.ULE(n.bv, 4))
    xs = [sym_value(ex, f"x{i}", NOT_IDENT) for i in range(3)]
    return [bc(ex, "Push", x) for x in xs] + [bc(ex, "MkList", n)]


def t_mkdict(ex):
    n = ex.fresh("u32", "n")
    ex.assume(z3.ULE(n.bv, 2))
    xs = [sym_value(ex, f"x{i}", NOT_IDENT) for i in range(4)]
    return [bc(ex, "Push", x) for x in xs] + [bc(ex, "MkDict", n)]


def t_fmt(ex):
    n = ex.fresh("u32", "n")
    ex.assume(z3.ULE(n.bv, 3))
    xs = [sym_value(ex, f"x{i}", NOT_IDENT) for i in range(2)]
    return [bc(ex, "Push", x) for x in xs] + [bc(ex, "FmtString", n)]


def t_access(ex):
    obj = sym_value(ex, "obj", NOT_IDENT)
    field = sym_value(ex, "field")
    return [bc(ex, "Push", obj), bc(ex, "Push", field), bc(ex, "Access")]


def t_call(ex):
    n = ex.fresh("u32", "n")
    ex.assume(z3.ULE(n.bv, 2))
    arg = sym_value(ex, "arg", NOT_IDENT)
    callee = sym_value(ex, "callee")
    return [bc(ex, "Push", arg), bc(ex, "Push", callee), bc(ex, "Call", n)]


def t_method_call(ex):
    """obj.name(arg): Access then Call"""
    n = ex.fresh("u32", "n")
    ex.assume(z3.ULE(n.bv, 1))
    arg, obj = sym_value(ex, "arg", NOT_IDENT), sym_value(ex, "obj", NOT_IDENT)
    idx = ex.P.types.variant_index("CelValue", "Ident")
    name = VAdt("CelValue", idx, {idx: [VOpaque("String", ex.new_vid(), "method name")]}, ex.new_vid())
    return [bc(ex, "Push", arg), bc(ex, "Push", obj), bc(ex, "Push", name), bc(ex, "Access"), bc(ex, "Call", n)]


# ----------------------------------------------------------------------------- reference VM
class Halt(Exception):
    """the reference run ends with Err(..) from run_raw; kind None = any error"""

    def __init__(self, kind=None, same=None):
        self.kind = kind
        self.same = same


class RefVM:
    def __init__(self, A, ex, ops, actual_is_err=False):
        self.actual_is_err = actual_is_err
        self.A = A
        self.ex = ex
        self.ops = ops  # actual ordered events of uninterpreted operations
        self.opos = 0
        self.stack = []  # entries: ("val", value) | ("bound", callable descr, value)
        self.T = ex.P.types
        interp = ex.notes["interp"]
        self.cel, self.bindings = interp.fields[0], interp.fields[1]

    # -- facts

    def payload(self, v, name, i=0):
        return self.ex.adt_fields(v, self.ex.variant_index(v, name))[i]

    def has_bindings(self):
        return self.A.ask(is_variant(self.ex, self.bindings, "Some"))

    def has_cel(self):
        return self.A.ask(is_variant(self.ex, self.cel, "Some"))

    def lookup(self, kind, name_vid):
        """-> referenced value or None"""
        if kind != "program" and not self.has_bindings():
            return None
        if kind == "program" and not self.has_cel():
            return None
        o = env_lookup(self.ex, kind, name_vid, ENV_TYPES[kind])
        if self.A.ask(is_variant(self.ex, o, "Some")):
            return self.ex.adt_fields(o, 1)[0]
        return None

    def next_op(self, name, ids=None, **kw):
        """the VM must now perform uninterpreted operation `name` on `ids`; returns its result"""
        if self.opos >= len(self.ops):
            raise RefMismatch(f"expected operation {name}{ids} but the VM performed no further operation")
        e = self.ops[self.opos]
        self.opos += 1
        if e.name != name:
            raise RefMismatch(f"expected operation {name}{ids}, the VM performed {e.name}{e.extra.get('ids') if e.extra else ''}")
        if ids is not None:
            got = e.extra.get("ids")
            ok = got is not None and len(got) == len(ids)
            if ok:
                for i, (g, w) in enumerate(zip(got, ids)):
                    if isinstance(w, tuple) and w and w[0] == "descr":
                        # an operand the reference constructed itself: compare by shape
                        a = models.deref(self.ex, e.args[i]) if i < len(e.args) else None
                        ok = ok and a is not None and z3.is_true(z3.simplify(matches(self.ex, a, w[1])))
                    elif g != w:
                        ok = False
            if not ok:
                raise RefMismatch(f"operation {name}: expected operands {ids}, the VM used {got}")
        for k, v in kw.items():
            if e.extra.get(k) != v:
                raise RefMismatch(f"operation {name}: expected {k}={v}, the VM used {e.extra.get(k)}")
        return e.ret

    # -- stack
    def pop_noresolve(self):
        if not self.stack:
            raise Halt("Runtime")
        return self.stack.pop()

    def pop(self):
        sv = self.pop_noresolve()
        if sv[0] != "val":
            return sv
        v = sv[1]
        if not self.is_(v, "Ident"):
            return sv
        name = vid_of(self.ex, self.payload(v, "Ident"))
        for kind in ("type", "param"):
            r = self.lookup(kind, name)
            if r is not None:
                return ("val", models.deref(self.ex, r))
        p = self.lookup("program", name)
        if p is not None:
            code = vid_of(self.ex, m_bytecode_of(self.ex, "", [p], None, None))
            res = self.next_op("run_raw", interp=self.ex.notes["interp"].vid, code=code, resolve=True)
            if self.is_(res, "Err"):
                raise Halt(same=self.payload(res, "Err").vid)
            return ("val", self.payload(res, "Ok"))
        return ("val", ("err_kind", "Binding"))

    def pop_val(self):
        sv = self.pop()
        if sv[0] != "val":
            raise Halt("Internal")
        return sv[1]

    def push(self, v):
        self.stack.append(("val", v))

    def known_err(self, v):
        """is v an error value?  v may be a descriptor built by the reference"""
        if isinstance(v, tuple):
            return v[0] == "err_kind"
        return self.is_(v, "Err")

    def is_(self, v, name):
        if isinstance(v, tuple):
            k = {"bool": "Bool", "err_kind": "Err", "list": "List", "map": "Map", "concat": "String", "ident": "Ident"}[v[0]]
            return k == name
        return self.A.ask(is_variant(self.ex, v, name))

    def ident_of(self, v):
        return ("descr", v) if isinstance(v, tuple) else vid_of(self.ex, v)

    # -- one run
    def run(self, prog, resolve):
        ex, A = self.ex, self.A
        d0 = ex.notes["depth0"]
        if A.ask(z3.UGT(d0.bv + 1, DEPTH_MUST_FAIL)):
            raise Halt("Runtime")
        if not A.ask(z3.ULE(d0.bv + 1, DEPTH_MUST_RUN)):
            # between the two bounds the implementation may draw the line where it likes
            if not self.ops and self.actual_is_err:
                raise Halt(None)
        pc, steps = 0, 0
        n = len(prog)
        while pc < n:
            steps += 1
            if steps > 12:
                raise RefOutside("reference step budget (backward jumps)")
            ins = prog[pc]
            pc += 1
            op = None
            for name, _ in self.T.enums["ByteCode"]:
                if self.is_(ins, name):
                    op = name
                    break
            pc = self.step(op, ins, pc, n)
        # final value
        if A.ask(resolve):
            sv = self.pop()
        else:
            sv = self.pop_noresolve()
            if sv[0] != "val":
                raise Halt("Internal")
            v = sv[1]
            if not isinstance(v, tuple) and self.is_(v, "Ident"):
                nm = vid_of(ex, self.payload(v, "Ident"))
                p = self.lookup("param", nm)
                sv = ("val", models.deref(ex, p)) if p is not None else ("val", ("ident", nm))
        if sv[0] != "val":
            raise Halt("Internal")
        v = sv[1]
        if self.known_err(v):
            if isinstance(v, tuple):
                raise Halt(v[1])
            raise Halt(same=self.payload(v, "Err").vid)
        return v

    def jump(self, pc, dist, n):
        A = self.A
        t = z3.SignExt(32, dist.bv) + z3.BitVecVal(pc, 64)
        if A.ask(z3.Or(t < 0, t > n)):
            raise Halt("Runtime")
        for k in range(n + 1):
            if A.ask(t == k):
                return k
        raise RefOutside("jump target")

    def step(self, op, ins, pc, n):
        ex, A = self.ex, self.A
        if op == "Push":
            self.push(self.payload(ins, "Push"))
        elif op == "Pop":
            self.pop_val()
        elif op == "Test":
            v = self.pop_val()
            if self.known_err(v):
                self.push(v)
            else:
                self.push(("bool", truthy_of(ex, self.ident_of(v))))
        elif op == "Dup":
            v = self.pop_val()
            self.push(v)
            self.push(v)
        elif op in UNOPS:
            v = self.pop_val()
            self.push(self.next_op(UNOPS[op], [self.ident_of(v)]))
        elif op in BINOPS:
            v2 = self.pop_val()
            v1 = self.pop_val()
            self.push(self.next_op(BINOPS[op], [self.ident_of(v1), self.ident_of(v2)]))
        elif op == "Jmp":
            return self.jump(pc, self.payload(ins, "Jmp"), n)
        elif op == "JmpCond":
            when, dist = self.payload(ins, "JmpCond", 0), self.payload(ins, "JmpCond", 1)
            v = self.pop_val()
            when_true = self.is_(when, "True")
            if isinstance(v, tuple):
                raise RefOutside("constructed value as a condition")
            if self.is_(v, "Bool"):
                b = A.ask(self.payload(v, "Bool").b)
                if b == when_true:
                    return self.jump(pc, dist, n)
            elif self.is_(v, "Err"):
                if not when_true:
                    return self.jump(pc, dist, n)
            else:
                raise Halt("InvalidOp")
        elif op == "MkList":
            k = self.count(self.payload(ins, "MkList"))
            items = [self.pop_val() for _ in range(k)]
            items.reverse()
            self.push(("list", items))
        elif op == "MkDict":
            k = self.count(self.payload(ins, "MkDict"))
            pairs = []
            for _ in range(k):
                key = self.pop_val()
                if isinstance(key, tuple) or not self.is_(key, "String"):
                    raise Halt("Value")
                val = self.pop_val()
                pairs.append((vid_of(ex, self.payload(key, "String")), val))
            pairs.reverse()  # source order: the entry pushed last is popped first
            self.push(("map", pairs))
        elif op == "FmtString":
            k = self.count(self.payload(ins, "FmtString"))
            segs = [self.pop_val() for _ in range(k)]
            segs.reverse()
            parts = []
            for s in segs:
                if isinstance(s, tuple) or not self.is_(s, "String"):
                    raise Halt("Runtime")
                parts.append(vid_of(ex, self.payload(s, "String")))
            self.push(("concat", parts))
        elif op == "Access":
            self.access()
        elif op == "Call":
            self.call(self.count(self.payload(ins, "Call")))
        else:
            raise RefOutside("opcode " + str(op))
        return pc

    def count(self, n):
        for k in range(8):
            if self.A.ask(n.bv == k):
                return k
        raise RefOutside("count")

    def callable_by_name(self, name):
        f = self.lookup("func", name)
        if f is not None:
            return ("fn", vid_of(self.ex, f))
        m = self.lookup("macro", name)
        if m is not None:
            return ("macro", vid_of(self.ex, m))
        return None

    def access(self):
        ex = self.ex
        sv = self.pop_noresolve()
        if sv[0] != "val":
            raise Halt("Internal")
        index = sv[1]
        if isinstance(index, tuple):
            raise RefOutside("constructed value as a field name")
        if not self.is_(index, "Ident"):
            # `a.b` always has an identifier here; anything else is an error value on the stack
            o = self.pop()
            if o[0] != "val":
                raise Halt("Internal")
            self.push(("err_kind", "Value"))
            return
        name = vid_of(ex, self.payload(index, "Ident"))
        obj = self.pop_val()
        if isinstance(obj, tuple):
            raise RefOutside("field of a constructed value")
        if self.is_(obj, "Map"):
            mv = self.payload(obj, "Map")
            got = env_lookup(ex, "mapget:%s" % getattr(mv, "vid", None), name, "Option<&CelValue>")
            if self.A.ask(is_variant(ex, got, "Some")):
                # a stored field wins over a method of the same name
                self.push(models.deref(ex, ex.adt_fields(got, 1)[0]))
            else:
                c = self.callable_by_name(name)
                if c is None:
                    self.push(("err_kind", "Attribute"))
                else:
                    self.stack.append(("bound", c, obj))
        elif self.is_(obj, "Dyn"):
            self.push(self.next_op("dyn_access"))
        else:
            if not self.has_bindings():
                raise Halt("Runtime")
            c = self.callable_by_name(name)
            if c is None:
                self.push(("err_kind", "Attribute"))
            else:
                self.stack.append(("bound", c, obj))

    def resolve_args(self, args):
        out = []
        for a in args:
            if not isinstance(a, tuple) and self.is_(a, "ByteCode"):
                code = vid_of(self.ex, self.payload(a, "ByteCode"))
                r = self.next_op("run_raw", interp=self.ex.notes["interp"].vid, code=code, resolve=True)
                if self.is_(r, "Err"):
                    raise Halt(same=self.payload(r, "Err").vid)
                out.append(self.payload(r, "Ok"))
            else:
                out.append(a)
        return out

    def macro_args(self, args):
        codes = []
        for a in args:
            if isinstance(a, tuple) or not self.is_(a, "ByteCode"):
                raise Halt("Internal")
            codes.append(vid_of(self.ex, self.payload(a, "ByteCode")))
        return codes

    def call(self, nargs):
        ex = self.ex
        sv = self.pop_noresolve()
        args = []
        for _ in range(nargs):
            a = self.pop()
            if a[0] != "val":
                raise Halt("Internal")
            args.append(a[1])
        if sv[0] == "bound":
            kind, callee = sv[1]
            this = sv[2]
            if kind == "fn":
                vals = self.resolve_args(args)
                self.push(self.next_op("call_fn", [self.ident_of(this), [self.ident_of(v) for v in vals]], callee=callee))
            else:
                codes = self.macro_args(args)
                self.push(self.next_op("call_macro", [ex.notes["interp"].vid, self.ident_of(this), codes], callee=callee))
            return
        v = sv[1]
        if isinstance(v, tuple):
            raise RefOutside("constructed value as a callee")
        if self.is_(v, "Ident"):
            name = vid_of(ex, self.payload(v, "Ident"))
            f = self.lookup("func", name)
            if f is not None:
                vals = self.resolve_args(args)
                r = self.next_op("call_fn", callee=vid_of(ex, f))
                self.check_call_args(r, vals, "null")
                self.push(r)
                return
            m = self.lookup("macro", name)
            if m is not None:
                codes = self.macro_args(args)
                r = self.next_op("call_macro", callee=vid_of(ex, m))
                self.last_macro = codes
                self.push(r)
                return
            t = self.lookup("type", name)
            if t is not None and self.is_(models.deref(ex, t), "Type"):
                vals = self.resolve_args(args)
                self.push(self.next_op("construct_type", [self.ident_of(v) for v in vals], type=vid_of(ex, self.payload(models.deref(ex, t), "Type"))))
                return
            self.push(("err_kind", "Runtime"))
        elif self.is_(v, "Type"):
            vals = self.resolve_args(args)
            self.push(self.next_op("construct_type", [self.ident_of(x) for x in vals], type=vid_of(ex, self.payload(v, "Type"))))
        else:
            self.push(("err_kind", "Runtime"))

    def check_call_args(self, r, vals, this):
        e = self.ops[self.opos - 1]
        ids = e.extra.get("ids")
        want = [self.ident_of(v) for v in vals]
        if ids is None or ids[1] != want:
            raise RefMismatch(f"function called with arguments {ids}, expected {want} (first source argument first)")


# ----------------------------------------------------------------------------- matching
def matches(ex, actual, want):
    """python/z3: does the value `actual` (engine value) equal the reference's value `want`?"""
    if not isinstance(want, tuple):
        return z3.BoolVal(getattr(actual, "vid", None) == getattr(want, "vid", None))
    k = want[0]
    if not isinstance(actual, VAdt) or actual.base() != "CelValue":
        return z3.BoolVal(False)
    if not isinstance(actual.discr, int):
        return z3.BoolVal(False)
    name = ex.adt_variants(actual.ty)[actual.discr][0]
    f = actual.fields.get(actual.discr, [])
    if k == "bool":
        return f[0].b == want[1] if name == "Bool" else z3.BoolVal(False)
    if k == "ident":
        return z3.BoolVal(name == "Ident" and getattr(f[0], "vid", None) == want[1])
    if k == "err_kind":
        if name != "Err":
            return z3.BoolVal(False)
        return err_class_is(ex, f[0], want[1])
    if k == "list":
        if name != "List" or not isinstance(f[0].length, int) or f[0].length != len(want[1]):
            return z3.BoolVal(False)
        return z3.And([matches(ex, a, w) for a, w in zip(f[0].items, want[1])] + [z3.BoolVal(True)])
    if k == "map":
        # a map literal holds, for every key, the value of the LAST entry (in source order) with
        # that key; HashMap::insert keeps the value inserted last.  Keys are texts with an
        # uninterpreted equality.
        if name != "Map" or not isinstance(f[0], engine.VMap):
            return z3.BoolVal(False)
        G = [(vid_of(ex, kk), vv) for kk, vv in f[0].entries]
        W = want[1]
        if sorted(g[0] for g in G) != sorted(w[0] for w in W):
            return z3.BoolVal(False)
        conds = []
        for K in sorted({w[0] for w in W}):
            for j, (kj, vj) in enumerate(W):
                sel_w = z3.And([key_eq(ex, kj, K)] + [z3.Not(key_eq(ex, k2, K)) for k2, _ in W[j + 1:]])
                for i, (gi, vi) in enumerate(G):
                    sel_g = z3.And([key_eq(ex, gi, K)] + [z3.Not(key_eq(ex, g2, K)) for g2, _ in G[i + 1:]])
                    conds.append(z3.Implies(z3.And(sel_w, sel_g), matches(ex, vi, vj)))
        return z3.And(conds + [z3.BoolVal(True)])
    if k == "concat":
        if name != "String":
            return z3.BoolVal(False)
        s = f[0]
        if not isinstance(s, VStruct) or base_ty(s.ty) != "StrBuild":
            return z3.BoolVal(False)
        return z3.BoolVal([p.vid for p in s.fields] == list(want[1]))
    raise ValueError(k)


# ----------------------------------------------------------------------------- scenarios for native replay
TYPE_NAMES = ["int", "uint", "double", "bool", "string", "bytes"]


def vm_scenario(ex):
    """-> function(model) -> {"kind": "vm", "request": <input of `mreplay vm`>}"""
    def mv(t):
        return ex_model[0].eval(t, model_completion=True)

    ex_model = [None]

    def variant(v):
        vs = ex.adt_variants(v.ty)
        if isinstance(v.discr, int):
            return vs[v.discr][0]
        k = mv(v.discr).as_long()
        if k >= len(vs):
            raise ValueError("discriminant out of range in the model")
        return vs[k][0]

    def build(model):
        ex_model[0] = model
        req = {"params": {}, "funcs": [], "macros": [], "programs": {}}
        names = {}
        counter = [0]

        def env_some(kind, nv):
            o = ex.lazy.get(("env", kind, nv))
            return o is not None and variant(o) == "Some"

        def name_for(nv):
            if nv in names:
                return names[nv]
            if env_some("type", nv):
                n = TYPE_NAMES[len([x for x in names.values() if x in TYPE_NAMES]) % len(TYPE_NAMES)]
            else:
                n = f"n{len(names)}"
            names[nv] = n
            if env_some("param", nv):
                o = ex.lazy[("env", "param", nv)]
                req["params"][n] = value(models.deref(ex, ex.adt_fields(o, 1)[0]), allow_ident=False)
            if env_some("func", nv):
                req["funcs"].append(n)
            if env_some("macro", nv):
                req["macros"].append(n)
            if env_some("program", nv):
                src = "40 + 2"
                pv = vid_of(ex, ex.adt_fields(ex.lazy[("env", "program", nv)], 1)[0])
                code = ex.lazy.get(("env", "code", pv))
                for e in ex.trace:
                    if e.name == "run_raw" and code is not None and e.extra.get("code") == vid_of(ex, code) and variant(e.ret) == "Err":
                        k = variant(ex.adt_fields(e.ret, 1)[0])
                        src = {"DivideByZero": "1 / 0", "Value": "[1][5]", "InvalidOp": "1 < 'a'", "Attribute": "{'a': 1}.b", "Binding": "zz_unbound_q", "Argument": "size(1, 2)"}.get(k, "1 / 0")
                req["programs"][n] = src
            return n

        def value(v, allow_ident=True):
            k = variant(v)
            counter[0] += 1
            c = counter[0]
            if k == "Int":
                return {"Int": 10 + c}
            if k == "UInt":
                return {"UInt": 10 + c}
            if k == "Float":
                return {"Float": 0.5 + c}
            if k == "Bool":
                b = ex.adt_fields(v, ex.variant_index(v, "Bool"))[0]
                return {"Bool": z3.is_true(mv(b.b))}
            if k == "String":
                sv = vid_of(ex, ex.adt_fields(v, ex.variant_index(v, "String"))[0])
                rep = sv
                for key, b in ex.lazy.items():
                    if isinstance(key, tuple) and key[0] == "keq" and sv in key[1:] and z3.is_true(mv(b)):
                        rep = min(rep, key[1], key[2])
                return {"Str": f"s{rep}"}
            if k == "Bytes":
                return {"Bytes": [c % 250]}
            if k == "List":
                return {"List": [{"Int": c}]}
            if k == "Map":
                mp = ex.adt_fields(v, ex.variant_index(v, "Map"))[0]
                d = {"other": {"Int": c}}
                for key, o in ex.lazy.items():
                    if key[0] == "env" and isinstance(key[1], str) and key[1] == "mapget:%s" % getattr(mp, "vid", None) and variant(o) == "Some":
                        d[name_for(key[2])] = value(models.deref(ex, ex.adt_fields(o, 1)[0]), allow_ident=False)
                return {"Map": d}
            if k == "Null":
                return {"Null": None}
            if k == "Ident":
                if not allow_ident:
                    return {"Str": f"ident{c}"}
                nv = vid_of(ex, ex.adt_fields(v, ex.variant_index(v, "Ident"))[0])
                return {"Ident": name_for(nv)}
            if k == "Type":
                return {"Type": "int"}
            if k == "ByteCode":
                return {"ByteCode": [{"op": "Push", "val": {"Int": 100 + c}}]}
            if k == "Err":
                e = ex.adt_fields(v, ex.variant_index(v, "Err"))[0]
                return {"Err": variant(e)}
            raise ValueError(f"no concrete stand-in for a {k} operand")

        instrs = []
        for ins in ex.notes["prog"]:
            op = variant(ins)
            d = {"op": op}
            if op == "Push":
                d["val"] = value(ex.adt_fields(ins, ex.variant_index(ins, "Push"))[0])
            elif op in ("MkList", "MkDict", "Call", "FmtString"):
                d["n"] = mv(ex.adt_fields(ins, ex.variant_index(ins, op))[0].bv).as_long()
            elif op == "Jmp":
                d["dist"] = mv(ex.adt_fields(ins, ex.variant_index(ins, op))[0].bv).as_signed_long()
            elif op == "JmpCond":
                fs = ex.adt_fields(ins, ex.variant_index(ins, op))
                d["when"] = variant(fs[0]) == "True"
                d["dist"] = mv(fs[1].bv).as_signed_long()
            instrs.append(d)
        req["instrs"] = instrs
        req["resolve"] = z3.is_true(mv(ex.notes["resolve"]))
        return {"kind": "vm", "request": req, "depth_on_entry": mv(ex.notes["depth0"].bv).as_long()}
    return build


ABSENT = ("Binding", "Attribute")


def err_class_is(ex, e, kind):
    """the properties distinguish 'absent data' failures (unbound name, absent field) from all
    others, and nothing finer: Binding and Attribute are matched exactly, any other expected kind
    stands for 'some failure that is not an absent-data failure'"""
    if kind in ABSENT:
        return is_variant(ex, e, kind)
    return z3.Not(z3.Or([is_variant(ex, e, k) for k in ABSENT]))


def key_eq(ex, a, b):
    """uninterpreted equality of two key texts (identified by their vids)"""
    if a == b:
        return z3.BoolVal(True)
    key = ("keq", min(a, b), max(a, b))
    if key not in ex.lazy:
        ex.lazy[key] = z3.Bool(f"keq@{key[1]}@{key[2]}")
    return ex.lazy[key]


def final_stack(ex):
    """what run_raw left on its operand stack (the `stack` local of the outermost frame)"""
    for key, v in ex.mem.items():
        if key[0] == "L" and key[1] == 1 and isinstance(v, VStruct) and base_ty(v.ty) == "InterpStack":
            return v.fields[0].items
    return None


def prefer_constructible(ex):
    """choose, where the path leaves it open, operand kinds the native replay can construct"""
    def prefs():
        out = []
        for ins in ex.notes["prog"]:
            for fs in ins.fields.values():
                for v in fs:
                    if isinstance(v, VAdt) and v.base() == "CelValue" and not isinstance(v.discr, int):
                        out.append(z3.And([v.discr != ex.variant_index(v, k) for k in ("TimeStamp", "Duration", "Dyn", "Float", "Bytes")]))
        return out
    return prefs


def check_vm(res, V):
    ex = res.ex
    scen = vm_scenario(ex)
    pref = prefer_constructible(ex)
    if res.outcome == "panic":
        V.check(ex, "the VM returns an error instead of panicking", False, detail=res.msg, scenario=scen, prefer=pref)
        return
    if res.outcome == "bound":
        V.witness("bounded (backward jump loop)")
        return
    if res.outcome != "return":
        V.inconclusive.append(f"{res.outcome}: {res.msg}")
        return
    ops = [e for e in ex.trace if e.extra is not None and e.name not in ("drop",)]
    prog = ex.notes["prog"]

    def ref(A):
        vm = RefVM(A, ex, ops, isinstance(res.ret.discr, int) and res.ret.discr == 1)
        try:
            v = vm.run(prog, ex.notes["resolve"])
            out = ("ok", v)
        except Halt as h:
            out = ("err", h.kind, h.same)
        return out, vm

    try:
        combos = run_reference(ex, ref)
    except RefMismatch as e:
        V.check(ex, "operations applied by the VM (which, operand order, how often)", False, detail=str(e), scenario=scen, prefer=pref)
        return
    except RefOutside as e:
        V.witness("outside the reference: " + str(e))
        return
    ret = res.ret
    for assumed, (out, vm) in combos:
        if vm.opos != len(ops):
            V.check(ex, "no operation beyond the reference's", False, assumed, detail=f"the VM performed {len(ops)} operations, the reference {vm.opos}: {ops[vm.opos:]!r}", scenario=scen, prefer=pref)
            continue
        if out[0] == "ok":
            V.witness("value")
            okv = ex.adt_fields(ret, 0)[0] if isinstance(ret.discr, int) and ret.discr == 0 else None
            V.check(ex, "run yields the reference's value", z3.BoolVal(False) if okv is None else matches(ex, okv, out[1]), assumed,
                    detail=lambda: f"reference: Ok({out[1]!r}); VM: {ret!r}", scenario=scen, prefer=pref)
            # what is left below the result must be what the reference left
            left = final_stack(ex)
            if left is not None:
                want = vm.stack
                same = len(left) == len(want)
                V.check(ex, "operand stack below the result", same, assumed, detail=lambda: f"VM left {left!r}, reference {want!r}", scenario=scen, prefer=pref)
        else:
            V.witness("error:" + str(out[1] or "propagated"))
            is_err = isinstance(ret.discr, int) and ret.discr == 1
            if not is_err:
                V.check(ex, "run fails like the reference", False, assumed, detail=lambda: f"reference: Err({out[1] or 'same as operand'}); VM: {ret!r}", scenario=scen, prefer=pref)
                continue
            e = ex.adt_fields(ret, 1)[0]
            if out[2] is not None:
                V.check(ex, "run fails with the operand's own error", e.vid == out[2], assumed, detail=lambda: f"VM: {ret!r}", scenario=scen, prefer=pref)
            elif out[1] is not None:
                V.check(ex, f"run fails with a {out[1] if out[1] in ABSENT else 'non-absent-data'} error", err_class_is(ex, e, out[1]), assumed, detail=lambda: f"VM: {ret!r}", scenario=scen, prefer=pref)
            else:
                V.check(ex, "run fails", True, assumed, scenario=scen, prefer=pref)
        # the depth counter is released on every exit
        d0 = ex.notes["depth0"]
        cur = ex.notes["interp"].fields[2].fields[0].fields[0]
        live = ex.read(ex.notes["interp_ref"].root, ())
        cur = live.fields[2].fields[0].fields[0]
        V.check(ex, "call-depth counter restored on exit", cur.bv == d0.bv, assumed, detail=lambda: f"depth on exit {cur!r}, on entry {d0!r}",
                scenario=lambda model: {"kind": "depth_probe", "exit_kind": "error" if (isinstance(ret.discr, int) and ret.discr == 1) else "value"})


TARGETS = []


def add(name, props, build, what, allow_bound=0, max_paths=20000, tier="quick"):
    TARGETS.append(dict(name=name, tier=tier, props=props.split(","), func="run_raw", self_ty="Interpreter", cfg=VM_CFG, make_args=template(build), check=check_vm, what=what,
                        allow_bound=allow_bound, max_paths=max_paths,
                        bounds={"program": "fixed template, symbolic operands", "depth_on_entry": "0..=200", "counts": "<= 4"}))


add("vm_binops", "C03,C04,C06,C01", t_binops, "every binary opcode applies its operation to (first pushed, second pushed) in that order")
add("vm_two_ops", "C03,C04,C06,C01", t_two_ops, "a op1 (b op2 c)-shaped stack programs: [a, b, c, op1, op2] applies op1 to (b, c) and op2 to (a, result)", tier="thorough", max_paths=60000)
add("vm_unops", "C05,C01", t_unops, "Not/Neg/Test/Dup/Pop: Test keeps failures and otherwise yields the truthiness; stack effects")
add("vm_resolve", "C12,C08,C01", t_resolve, "identifier operands resolve: type name, then variable, then stored program (same interpreter), else an unbound-name failure value")
add("vm_jmpcond", "C05,C10,C01", t_jmpcond, "JmpCond pops; jumps iff Bool == when, a failing condition counts as 'false'; other kinds fail; targets bounded", allow_bound=10000)
add("vm_jmp", "C10,C01", t_jmp, "Jmp: target inside the block or at its end, otherwise an error", allow_bound=10000)
add("vm_mklist", "C06,C01", t_mklist, "MkList(n) builds the list of the last n pushed values in push order")
add("vm_mkdict", "C06,C01", t_mkdict, "MkDict(n), n <= 2: (key, value) pairs, keys must be strings; for a repeated key the entry that comes last in the source wins")
add("vm_fmt", "C14,C01", t_fmt, "FmtString(n) concatenates its n string segments in push order; a non-string segment fails")
add("vm_access", "C06,C12,C08,C01", t_access, "m.k: the value stored under k wins over a method named k; absent field is an absent-field failure value; a.b on other kinds binds a method or fails")
add("vm_call", "C12,C09,C01", t_call, "Call on an identifier: bound function, then macro, then type constructor, else 'not callable'; arguments in source order")
add("vm_method", "C12,C01", t_method_call, "obj.name(args): bound call through Access + Call")
