"""Symbolic executor for rustc MIR (text dump) with z3.

What is executed is the MIR that rustc produced for /repo's current source: the basic blocks,
switches, drops and calls of the real functions.  Inputs are symbolic (z3 terms or lazily
materialised symbolic ADT values); every branch on a symbolic value forks the path after a
feasibility query to z3; calls are either *inlined* (the callee's MIR is executed), *modelled*
(a summary from models.py, e.g. Vec::push) or *havocked* (an uninterpreted result plus a trace
event).  Which of the three happened to which callee is recorded per run and reported in the
evidence, because every model and every havoc is part of the claim.

Paths are enumerated by re-execution with a decision prefix (no state copying).
"""
import re
import time
import z3

import mirparse as mp

INT_TYPES = {
    "i8": (8, True), "i16": (16, True), "i32": (32, True), "i64": (64, True), "i128": (128, True), "isize": (64, True),
    "u8": (8, False), "u16": (16, False), "u32": (32, False), "u64": (64, False), "u128": (128, False), "usize": (64, False),
    "char": (32, False),
}

Obj = z3.DeclareSort("Obj")


class Unsupported(Exception):
    pass


class PathEnd(Exception):
    def __init__(self, kind, msg=""):
        self.kind = kind
        self.msg = msg


# ------------------------------------------------------------------------------------- values
class VInt:
    __slots__ = ("bv", "signed")

    def __init__(self, bv, signed):
        self.bv = bv
        self.signed = signed

    @property
    def bits(self):
        return self.bv.size()

    def concrete(self):
        v = z3.simplify(self.bv)
        if z3.is_bv_value(v):
            n = v.as_long()
            if self.signed and n >= 1 << (self.bits - 1):
                n -= 1 << self.bits
            return n
        return None

    def __repr__(self):
        c = self.concrete()
        return f"{c}" if c is not None else f"<{z3.simplify(self.bv)}>"


class VBool:
    __slots__ = ("b",)

    def __init__(self, b):
        self.b = b if not isinstance(b, bool) else z3.BoolVal(b)

    def concrete(self):
        v = z3.simplify(self.b)
        if z3.is_true(v):
            return True
        if z3.is_false(v):
            return False
        return None

    def __repr__(self):
        c = self.concrete()
        return str(c) if c is not None else f"<{z3.simplify(self.b)}>"


class VUnit:
    def __repr__(self):
        return "()"


class VStr:
    """A `&'static str` constant."""
    __slots__ = ("s",)

    def __init__(self, s):
        self.s = s

    def __repr__(self):
        return repr(self.s)


class VFn:
    __slots__ = ("name",)

    def __init__(self, name):
        self.name = name

    def __repr__(self):
        return f"fn:{self.name}"


class VTuple:
    __slots__ = ("items",)

    def __init__(self, items):
        self.items = items

    def __repr__(self):
        return "(" + ", ".join(map(repr, self.items)) + ")"


class VAdt:
    """Enum value. discr: python int or z3 64-bit bit-vector term. fields: {variant_idx: [Value]} (lazily made)."""
    __slots__ = ("ty", "discr", "fields", "vid")

    def __init__(self, ty, discr, fields=None, vid=None):
        self.ty = ty  # full normalised type string, e.g. Result<CelValue, CelError>
        self.discr = discr
        self.fields = fields or {}
        self.vid = vid

    def base(self):
        return base_ty(self.ty)

    def __repr__(self):
        d = self.discr if isinstance(self.discr, int) else f"<{self.discr}>"
        return f"{self.base()}#{d}{self.fields.get(d) if isinstance(d, int) and self.fields.get(d) else ''}@{self.vid}"


class VStruct:
    __slots__ = ("ty", "fields", "vid")

    def __init__(self, ty, fields, vid=None):
        self.ty = ty
        self.fields = fields
        self.vid = vid

    def __repr__(self):
        return f"{base_ty(self.ty)}{{{', '.join(map(repr, self.fields))}}}"


class VRef:
    __slots__ = ("root", "path", "mut")

    def __init__(self, root, path=(), mut=False):
        self.root = root
        self.path = path
        self.mut = mut

    def __repr__(self):
        return f"&{self.root}{list(self.path) if self.path else ''}"


class VOpaque:
    """A value whose inside is never looked at (String, CelContext, closures, f64, ...)."""
    __slots__ = ("ty", "vid", "tag")

    def __init__(self, ty, vid, tag=None):
        self.ty = ty
        self.vid = vid
        self.tag = tag  # free-form provenance ("result of CelValue::or(3, 5)")

    def __repr__(self):
        return f"?{base_ty(self.ty)}@{self.vid}" + (f"[{self.tag}]" if self.tag else "")


class VSeq:
    """Vec<T> / [T]: `length` is a python int or a z3 64-bit bit-vector; items[0..k) are materialised."""
    __slots__ = ("elem_ty", "length", "items", "vid")

    def __init__(self, elem_ty, length, items=None, vid=None):
        self.elem_ty = elem_ty
        self.length = length
        self.items = items if items is not None else []
        self.vid = vid

    def concrete_len(self):
        return self.length if isinstance(self.length, int) else None

    def __repr__(self):
        return f"Seq<{base_ty(self.elem_ty)}>(len={self.length}, {self.items})"


class VIter:
    """Iterator over a VSeq: by value (`owned`) or by reference (items are VRefs into `src`)."""
    __slots__ = ("seq", "pos", "src", "kind")

    def __init__(self, seq, pos=0, src=None, kind="owned"):
        self.seq = seq
        self.pos = pos
        self.src = src  # VRef to the sequence for by-ref iteration
        self.kind = kind

    def __repr__(self):
        return f"Iter({self.kind}, pos={self.pos}, {self.seq if self.seq is not None else self.src})"


class VMap:
    __slots__ = ("entries", "vid", "sym")

    def __init__(self, vid, sym=False):
        self.entries = []  # [(key value, value)] in insertion order
        self.vid = vid
        self.sym = sym

    def __repr__(self):
        return f"Map@{self.vid}{self.entries}"


def vcopy(v):
    """Deep copy of a value tree (references stay pointing at the same cell; vids are kept: a
    copy/clone denotes the same logical value)."""
    if isinstance(v, (VInt, VBool, VUnit, VStr, VFn, VRef, VOpaque)) or v is None:
        return v
    if isinstance(v, VTuple):
        return VTuple([vcopy(x) for x in v.items])
    if isinstance(v, VAdt):
        return VAdt(v.ty, v.discr, {k: [vcopy(x) for x in fs] for k, fs in v.fields.items()}, v.vid)
    if isinstance(v, VStruct):
        return VStruct(v.ty, [vcopy(x) for x in v.fields], v.vid)
    if isinstance(v, VSeq):
        return VSeq(v.elem_ty, v.length, [vcopy(x) for x in v.items], v.vid)
    if isinstance(v, VIter):
        return VIter(vcopy(v.seq), v.pos, v.src, v.kind)
    if isinstance(v, VMap):
        m = VMap(v.vid, v.sym)
        m.entries = [(vcopy(k), vcopy(x)) for k, x in v.entries]
        return m
    raise Unsupported(f"vcopy {type(v)}")


# ------------------------------------------------------------------------------------- types
PRIMS = {"str", "bool", "char", "i8", "i16", "i32", "i64", "i128", "isize", "u8", "u16", "u32", "u64", "u128", "usize", "f32", "f64"}


def norm_ty(s):
    """Normalise a type or callee path: no lifetimes, no module prefixes (snake_case segments
    followed by `::`), `Type::<..>::m` turbofish kept only when it has real arguments."""
    s = s.strip()
    s = re.sub(r"\bfor<[^>]*>\s*", "", s)
    s = re.sub(r"'\w+\s*,?\s*", "", s)  # lifetimes
    s = re.sub(r"::<\s*>", "", s)
    s = re.sub(r"<\s*>", "", s)
    s = re.sub(r",\s*>", ">", s)
    s = re.sub(r"\bfor<[^>]*>\s*", "", s)

    def drop_mod(m):
        seg = m.group(1)
        if seg in PRIMS:
            return m.group(0)
        rest = m.string[m.end():]
        if rest.startswith("<impl"):
            # `slice::<impl [T]>::iter` is a module path; `extend::<impl IntoIterator<..>>` is a method
            # with an impl-trait type argument: keep the method name
            depth = 0
            for k, ch in enumerate(rest):
                if ch == "<":
                    depth += 1
                elif ch == ">" and not (k > 0 and rest[k - 1] == "-"):
                    depth -= 1
                    if depth == 0:
                        if not rest[k + 1:].startswith("::"):
                            return m.group(0)
                        break
        return ""

    s = re.sub(r"\b([a-z_][a-z0-9_]*)::(?=[A-Za-z_{]|<impl)", drop_mod, s)
    s = re.sub(r"&\s+", "&", s)
    return s.strip()


def base_ty(s):
    m = re.match(r"^([A-Za-z_]\w*)", s)
    return m.group(1) if m else s


def ty_args(s):
    i = s.find("<")
    if i < 0 or not s.endswith(">"):
        return []
    return mp.split_top(s[i + 1:-1])


def path_segments(c):
    """split a path on `::` at angle-bracket depth 0, dropping generic argument lists"""
    segs, depth, cur, i = [], 0, "", 0
    while i < len(c):
        ch = c[i]
        if ch == "<":
            depth += 1
        elif ch == ">" and not (i > 0 and c[i - 1] == "-"):
            depth -= 1
        if depth == 0 and c.startswith("::", i):
            segs.append(cur)
            cur = ""
            i += 2
            continue
        cur += ch
        i += 1
    segs.append(cur)
    segs = [x for x in segs if x and not x.startswith("<")]
    return [re.sub(r"<.*>$", "", x) for x in segs]


class TypeTable:
    """enum/struct definitions parsed from the Rust source of /repo (regenerated every run)."""

    def __init__(self):
        self.enums = {}  # name -> [(variant, [(field name|None, type)])]
        self.structs = {}  # name -> [(field name|None, type)]
        self.aliases = {}
        self.generics = {}

    def load_source(self, text, features=()):
        text = re.sub(r"//[^\n]*", "", text)
        for m in re.finditer(r"\b(?:pub(?:\([^)]*\))?\s+)?type\s+(\w+)(?:<[^>]*>)?\s*=\s*([^;]+);", text):
            self.aliases[m.group(1)] = norm_ty(m.group(2))
        for m in re.finditer(r"\b(enum|struct)\s+(\w+)\s*(<[^>{(;]*>)?\s*(\{|\(|;)", text):
            kind, name, gen, opener = m.group(1), m.group(2), m.group(3), m.group(4)
            if gen:
                self.generics[name] = [g.strip().split(":")[0].strip() for g in mp.split_top(gen[1:-1]) if not g.strip().startswith("'")]
            if opener == ";":
                self.structs[name] = []
                continue
            close = {"{": "}", "(": ")"}[opener]
            depth, j = 0, m.end() - 1
            while j < len(text):
                if text[j] == opener:
                    depth += 1
                elif text[j] == close:
                    depth -= 1
                    if depth == 0:
                        break
                j += 1
            body = text[m.end():j]
            if kind == "struct":
                self.structs[name] = self._fields(body, opener == "(", features)
            else:
                variants = []
                for item in self._items(body, features):
                    vm = re.match(r"^(\w+)\s*(\((.*)\)|\{(.*)\})?\s*(=\s*.+)?$", item, re.S)
                    if not vm:
                        continue
                    if vm.group(3) is not None:
                        variants.append((vm.group(1), self._fields(vm.group(3), True, features)))
                    elif vm.group(4) is not None:
                        variants.append((vm.group(1), self._fields(vm.group(4), False, features)))
                    else:
                        variants.append((vm.group(1), []))
                self.enums[name] = variants

    @staticmethod
    def _items(body, features):
        """top-level comma separated items with their attributes evaluated (cfg(feature=..))."""
        out = []
        for raw in mp.split_top(body):
            item = raw.strip()
            keep = True
            while item.startswith("#["):
                depth, j = 0, 1
                while j < len(item):
                    if item[j] == "[":
                        depth += 1
                    elif item[j] == "]":
                        depth -= 1
                        if depth == 0:
                            break
                    j += 1
                attr = item[2:j]
                cm = re.match(r'^cfg\(feature\s*=\s*"(\w+)"\)$', attr.strip())
                if cm and cm.group(1) not in features:
                    keep = False
                cm = re.match(r'^cfg\(not\(feature\s*=\s*"(\w+)"\)\)$', attr.strip())
                if cm and cm.group(1) in features:
                    keep = False
                item = item[j + 1:].strip()
            if keep and item:
                out.append(item)
        return out

    def _fields(self, body, positional, features):
        out = []
        for item in self._items(body, features):
            item = re.sub(r"^pub(\([^)]*\))?\s+", "", item)
            if positional:
                out.append((None, norm_ty(item)))
            else:
                fm = re.match(r"^(\w+)\s*:\s*(.*)$", item, re.S)
                if fm:
                    out.append((fm.group(1), norm_ty(fm.group(2))))
        return out

    def resolve_alias(self, ty):
        b = base_ty(ty)
        seen = 0
        while b in self.aliases and seen < 5:
            ty = self.aliases[b]
            b = base_ty(ty)
            seen += 1
        return ty

    def expand_aliases(self, ty):
        """replace every alias name occurring in a type by its definition (non-generic aliases)"""
        for _ in range(4):
            new = re.sub(r"\b([A-Z]\w*)\b(?!\s*<)", lambda m: self.aliases.get(m.group(1), m.group(1)) if m.group(1) in self.aliases and "<T" not in self.aliases[m.group(1)] else m.group(1), ty)
            if new == ty:
                break
            ty = new
        return ty

    def variant_index(self, enum, variant):
        for i, (n, _) in enumerate(self.enums[enum]):
            if n == variant:
                return i
        raise KeyError((enum, variant))


BUILTIN_ENUMS = {
    "Option": [("None", []), ("Some", [(None, "$0")])],
    "Result": [("Ok", [(None, "$0")]), ("Err", [(None, "$1")])],
    "ControlFlow": [("Continue", [(None, "$1")]), ("Break", [(None, "$0")])],
    "Ordering": [("Less", []), ("Equal", []), ("Greater", [])],
}


# ------------------------------------------------------------------------------------- program index
class Program:
    def __init__(self, funcs, repo_root, types):
        self.funcs = funcs
        self.repo_root = repo_root
        self.types = types
        self.inherent = {}  # (SelfTy, method) -> [Func]
        self.trait_impls = {}  # (SelfTy, Trait, method) -> [Func]
        self.free = {}  # short -> [Func]
        self.drops = {}  # SelfTy -> Func (Drop::drop)
        self.closures = {}  # "{closure@file:line:col: line:col}" -> Func
        self.promoted = {}  # "<function name>::promoted[k]" -> Func
        self.const_items = {}  # NAME of a named `const` item with a MIR body -> [Func]
        self._src_cache = {}
        for f in funcs:
            self._index(f)

    def _src_line(self, file, line):
        if file not in self._src_cache:
            try:
                self._src_cache[file] = open(f"{self.repo_root}/{file}").read().split("\n")
            except OSError:
                self._src_cache[file] = []
        ls = self._src_cache[file]
        return ls[line - 1] if 0 < line <= len(ls) else ""

    def _index(self, f):
        if getattr(f, "const_item", False):
            self.const_items.setdefault(f.name, []).append(f)
            return
        if f.promoted:
            self.promoted[f.name] = f
        if f.promoted or "{closure" in f.name or "{constant" in f.name:
            self.free.setdefault(f.name, []).append(f)
            if "{closure" in f.name and f.params:
                cm = re.search(r"\{closure@[^}]*\}", f.params[0][1])
                if cm:
                    self.closures[cm.group(0)] = f
            return
        if f.impl_at:
            file, line = f.impl_at
            src = self._src_line(file, line)
            m = re.match(r"^\s*(?:unsafe\s+)?impl\s*(<.*?>)?\s*(.*?)\s*(?:where\b.*)?\{?\s*$", src)
            self_ty = trait = None
            if src.lstrip().startswith("impl") and m:
                body = m.group(2)
                # `Trait<..> for Type<..>` | `Type<..>`
                parts = re.split(r"\s+for\s+", body)
                if len(parts) == 2:
                    trait, self_ty = norm_ty(parts[0]), norm_ty(parts[1])
                else:
                    self_ty = norm_ty(parts[0])
            elif "derive(" in src:
                # derive-generated impl: trait = identifier at the column, type = next enum/struct
                cm = re.search(r"<impl at [^:>]+:\d+:(\d+):", f.name)
                col = int(cm.group(1)) - 1
                tm = re.match(r"\w+", src[col:])
                trait = tm.group(0) if tm else None
                for k in range(line, line + 12):
                    dm = re.match(r"^\s*(?:pub(?:\([^)]*\))?\s+)?(?:enum|struct)\s+(\w+)", self._src_line(file, k + 1))
                    if dm:
                        self_ty = dm.group(1)
                        break
            f.self_ty, f.trait = self_ty, trait
            if self_ty:
                if trait:
                    self.trait_impls.setdefault((base_ty(self_ty), base_ty(trait), f.short), []).append(f)
                    if base_ty(trait) == "Drop" and f.short == "drop":
                        self.drops[base_ty(self_ty)] = f
                else:
                    self.inherent.setdefault((base_ty(self_ty), f.short), []).append(f)
                return
        self.free.setdefault(f.short, []).append(f)

    def resolve(self, callee):
        """callee text from a MIR call -> Func or None"""
        c = norm_ty(callee) if False else callee
        c = re.sub(r"'\w+", "", c)
        m = re.match(r"^<(.+) as (.+?)>::(\w+)(?:::<.*>)?$", c, re.S)
        if m:
            sty, tr, meth = norm_ty(m.group(1)), norm_ty(m.group(2)), m.group(3)
            cands = self.trait_impls.get((base_ty(sty), base_ty(tr), meth), [])
            if not cands:
                cands = self.trait_impls.get((base_ty(sty.lstrip("&").replace("mut ", "")), base_ty(tr), meth), [])
            X = self.types.expand_aliases
            trq, styq = X(tr).replace(" ", ""), X(sty).replace(" ", "")

            def same(f, with_self=True):
                ft = X(norm_ty(f.trait or "")).replace(" ", "")
                fs = X(norm_ty(f.self_ty or "")).replace(" ", "")
                return ft == trq and (not with_self or fs == styq)
            for f in cands:
                if same(f):
                    return f
            for f in cands:
                if same(f, False):
                    return f
            # traits without generic arguments (Clone, PartialEq, Drop, CelValueDyn ...): the base name decides
            if len(cands) == 1 and "<" not in trq and "<" not in X(norm_ty(cands[0].trait or "")):
                return cands[0]
            return None
        segs = path_segments(norm_ty(c))
        if not segs:
            return None
        meth = segs[-1]
        if len(segs) >= 2:
            cands = self.inherent.get((segs[-2], meth), [])
            if len(cands) == 1:
                return cands[0]
            if len(cands) > 1:
                return cands[0]
        cands = self.free.get(meth, [])
        if len(cands) == 1:
            return cands[0]
        if len(cands) > 1 and len(segs) >= 2:
            for f in cands:
                if f.name.endswith("::".join(segs[-2:])):
                    return f
        if len(cands) > 1:
            for f in cands:
                if f.name == "::".join(segs) or f.name == meth:
                    return f
        return None


# ------------------------------------------------------------------------------------- executor
class Event:
    __slots__ = ("name", "args", "ret", "extra")

    def __init__(self, name, args, ret, extra=None):
        self.name = name
        self.args = args
        self.ret = ret
        self.extra = extra

    def __repr__(self):
        return f"{self.name}({', '.join(map(repr, self.args))}) -> {self.ret!r}"


class Frame:
    def __init__(self, fid, func, subst=None):
        self.fid = fid
        self.func = func
        self.subst = subst or {}


class Executor:
    """One path of symbolic execution (re-created for every path)."""

    def __init__(self, program, config, decisions):
        self.P = program
        self.cfg = config
        self.decisions = list(decisions)
        self.dpos = 0
        self.new_alternatives = []  # decision prefixes to explore later
        self.solver = z3.Solver()
        self.solver.set("timeout", config.get("solver_timeout_ms", 20000))
        self.pc = []
        self.mem = {}
        self.nfresh = 0
        self.nframes = 0
        self.trace = []
        self.truthy_memo = {}
        self.lazy = {}
        self.steps = 0
        self.solver_calls = 0
        self.solver_time = 0.0
        self.used = {"inlined": set(), "modelled": set(), "havocked": set()}
        self.choices = []  # human-readable branch labels
        self.notes = {}

    # ---- fresh symbols
    def fresh_name(self, base):
        self.nfresh += 1
        return f"{base}!{self.nfresh}"

    def new_vid(self):
        self.nfresh += 1
        return self.nfresh

    def fresh_int(self, bits, signed, base="i"):
        return VInt(z3.BitVec(self.fresh_name(base), bits), signed)

    def fresh_bool(self, base="b"):
        return VBool(z3.Bool(self.fresh_name(base)))

    def heap(self, value, tag="h"):
        key = ("H", self.new_vid(), tag)
        self.mem[key] = value
        return key

    def fresh(self, ty, tag=None, depth=0):
        ty = self.P.types.resolve_alias(norm_ty(ty))
        if ty in INT_TYPES:
            b, s = INT_TYPES[ty]
            v = self.fresh_int(b, s, tag or ty)
            if ty == "char":
                self.assume(z3.Or(z3.ULT(v.bv, 0xD800), z3.And(z3.UGE(v.bv, 0xE000), z3.ULT(v.bv, 0x110000))))
            return v
        if ty == "bool":
            return self.fresh_bool(tag or "b")
        if ty == "()":
            return VUnit()
        if ty.startswith("&"):
            inner = ty[1:].strip()
            mut = False
            if inner.startswith("mut "):
                inner, mut = inner[4:], True
            if inner.startswith("[") and inner.endswith("]"):
                v = self.fresh_seq(inner[1:-1], tag)
            elif inner == "str":
                v = VOpaque("str", self.new_vid(), tag)
            elif inner.startswith("dyn "):
                v = VOpaque(inner, self.new_vid(), tag)
            else:
                v = self.fresh(inner, tag, depth + 1)
            return VRef(self.heap(v, tag or "ref"), (), mut)
        if ty.startswith("(") and ty.endswith(")"):
            return VTuple([self.fresh(t, tag, depth + 1) for t in mp.split_top(ty[1:-1]) if t])
        b = base_ty(ty)
        if b in ("Vec", "VecDeque") or (ty.startswith("[") and ty.endswith("]")):
            et = ty_args(ty)[0] if b in ("Vec", "VecDeque") else ty[1:-1].split(";")[0]
            return self.fresh_seq(et, tag)
        if b == "Box":
            return self.fresh(ty_args(ty)[0], tag, depth + 1)
        if b in BUILTIN_ENUMS or b in self.P.types.enums:
            n = len(BUILTIN_ENUMS.get(b) or self.P.types.enums[b])
            d = z3.BitVec(self.fresh_name((tag or b) + ".d"), 64)
            self.assume(z3.ULT(d, n))
            return VAdt(ty, d, {}, self.new_vid())
        if b in self.P.types.structs and depth < 6 and b not in self.cfg.get("opaque_types", ()):
            fs = self.P.types.structs[b]
            return VStruct(ty, [self.fresh(self.subst(ft, ty), (tag or b) + "." + str(fn or i), depth + 1) for i, (fn, ft) in enumerate(fs)], self.new_vid())
        return VOpaque(ty, self.new_vid(), tag)

    def fresh_seq(self, elem_ty, tag=None):
        n = z3.BitVec(self.fresh_name((tag or "seq") + ".len"), 64)
        self.assume(z3.ULE(n, self.cfg.get("seq_bound", 3)))
        return VSeq(norm_ty(elem_ty), n, [], self.new_vid())

    def subst(self, field_ty, adt_ty):
        """substitute `$i` / declared generic parameter names by the type arguments of adt_ty"""
        args = ty_args(adt_ty)
        if field_ty.startswith("$"):
            i = int(field_ty[1:])
            return args[i] if i < len(args) else "?"
        gens = self.P.types.generics.get(base_ty(adt_ty))
        if gens and args:
            for g, a in zip(gens, args):
                field_ty = re.sub(rf"\b{g}\b", a, field_ty)
        return field_ty

    # ---- constraints / branching
    def assume(self, c):
        self.pc.append(c)
        self.solver.add(c)

    def feasible(self, c):
        s = z3.simplify(c)
        if z3.is_true(s):
            return True
        if z3.is_false(s):
            return False
        t = time.time()
        r = self.solver.check(s)
        self.solver_calls += 1
        self.solver_time += time.time() - t
        if r == z3.unknown:
            raise Unsupported("solver returned unknown on a feasibility query")
        return r == z3.sat

    def branch(self, options, what=""):
        """options: [(label, z3 condition)] -> index of the chosen option.
        Only feasible options count; when several are feasible the choice is a decision point."""
        feas = [i for i, (_, c) in enumerate(options) if self.feasible(c)]
        if not feas:
            raise PathEnd("infeasible", what)
        if len(feas) == 1:
            i = feas[0]
            self.assume(options[i][1])
            return i
        if self.dpos < len(self.decisions):
            i = self.decisions[self.dpos]
            if i not in feas:
                raise Unsupported(f"replayed decision {i} not feasible at {what}")
        else:
            i = feas[0]
            for alt in feas[1:]:
                self.new_alternatives.append(self.decisions[:self.dpos] + [alt])
            self.decisions.append(i)
        self.dpos += 1
        self.assume(options[i][1])
        self.choices.append(f"{what}:{options[i][0]}")
        return i

    def branch_bool(self, cond, what=""):
        return self.branch([("true", cond), ("false", z3.Not(cond))], what) == 0

    # ---- memory
    def local_key(self, frame, idx):
        return ("L", frame.fid, idx)

    def adt_variants(self, ty):
        b = base_ty(ty)
        return BUILTIN_ENUMS.get(b) or self.P.types.enums.get(b)

    def variant_index(self, adt, name):
        vs = self.adt_variants(adt.ty)
        if vs is None:
            raise Unsupported(f"downcast of unknown enum {adt.ty}")
        for i, (n, _) in enumerate(vs):
            if n == name:
                return i
        raise Unsupported(f"variant {name} of {adt.ty}")

    def adt_fields(self, adt, vidx):
        if vidx not in adt.fields:
            # all copies of one logical value (same vid) materialise the same fields
            key = (adt.vid, vidx)
            if key not in self.lazy:
                vs = self.adt_variants(adt.ty)
                fs = vs[vidx][1]
                self.lazy[key] = [self.fresh(self.subst(ft, adt.ty), f"{base_ty(adt.ty)}.{vs[vidx][0]}.{fn or i}") for i, (fn, ft) in enumerate(fs)]
            adt.fields[vidx] = [vcopy(x) for x in self.lazy[key]]
        return adt.fields[vidx]

    def seq_item(self, seq, i):
        """materialise items up to index i (symbolic-length sequences get fresh elements)"""
        while len(seq.items) <= i:
            if isinstance(seq.length, int):
                raise PathEnd("panic", "index out of bounds (model)")
            key = (seq.vid, "item", len(seq.items))
            if key not in self.lazy:
                self.lazy[key] = self.fresh(seq.elem_ty, "elem")
            seq.items.append(vcopy(self.lazy[key]))
        return seq.items[i]

    def step_into(self, v, step):
        kind = step[0]
        if kind == "f":
            _, vidx, i = step
            if isinstance(v, VAdt):
                if vidx is None:
                    raise Unsupported("field of enum without downcast")
                return self.adt_fields(v, vidx)[i]
            if isinstance(v, VStruct):
                return v.fields[i]
            if isinstance(v, VTuple):
                return v.items[i]
            if isinstance(v, VOpaque):
                raise Unsupported(f"field access into opaque value of type {v.ty}")
            raise Unsupported(f"field of {type(v).__name__}")
        if kind == "i":
            if isinstance(v, VSeq):
                return self.seq_item(v, step[1])
            raise Unsupported(f"index into {type(v).__name__}")
        raise Unsupported(f"step {step}")

    def read(self, root, path):
        v = self.mem[root]
        for st in path:
            v = self.step_into(v, st)
        return v

    def write(self, root, path, val):
        if not path:
            self.mem[root] = val
            return
        v = self.mem[root]
        for st in path[:-1]:
            v = self.step_into(v, st)
        st = path[-1]
        if st[0] == "f":
            _, vidx, i = st
            if isinstance(v, VAdt):
                self.adt_fields(v, vidx)[i] = val
            elif isinstance(v, VStruct):
                v.fields[i] = val
            elif isinstance(v, VTuple):
                v.items[i] = val
            else:
                raise Unsupported(f"write field of {type(v).__name__}")
        elif st[0] == "i":
            self.seq_item(v, st[1])
            v.items[st[1]] = val
        else:
            raise Unsupported("write step")

    def resolve_place(self, frame, place):
        root, path = self.local_key(frame, place.local), ()
        pending_variant = None
        for st in place.proj:
            k = st[0]
            if k == "deref":
                v = self.read(root, path)
                if isinstance(v, VRef):
                    root, path = v.root, v.path
                elif isinstance(v, (VStr, VOpaque)):
                    raise Unsupported(f"deref of {v!r}")
                else:
                    # Box<T> is modelled as T itself
                    pass
            elif k == "downcast":
                pending_variant = st[1]
            elif k == "field":
                v = self.read(root, path)
                fty = st[2] if len(st) > 2 and isinstance(st[2], str) else ""
                if re.match(r"^(std::ptr::)?(Unique|NonNull)<", fty) and not (isinstance(v, VStruct) and base_ty(v.ty) in ("Box", "Unique", "NonNull")):
                    # the pointer inside a Box: a Box<T> is modelled as the T itself
                    pending_variant = None
                    continue
                if isinstance(v, VAdt):
                    if pending_variant is None:
                        # single-variant access without downcast does not occur for enums
                        raise Unsupported("enum field without downcast")
                    path = path + (("f", self.variant_index(v, pending_variant), st[1]),)
                else:
                    path = path + (("f", None, st[1]),)
                pending_variant = None
            elif k == "index":
                iv = self.mem[self.local_key(frame, st[1])]
                c = iv.concrete()
                if c is None:
                    c = self.concretize_index(iv, self.read(root, path))
                path = path + (("i", c),)
            elif k == "cindex":
                if st[2]:
                    raise Unsupported("index from end")
                path = path + (("i", st[1]),)
        return root, path

    def concretize_index(self, iv, seq):
        """symbolic index into a sequence: fork over the (bounded) possible values"""
        bound = self.cfg.get("seq_bound", 3) + 2
        if isinstance(seq, VSeq) and isinstance(seq.length, int):
            bound = seq.length
        opts = [(str(k), iv.bv == k) for k in range(bound)]
        i = self.branch(opts, "index")
        return i

    # ---- operands / rvalues
    def const(self, text, ty_hint=None):
        t = text
        if t.startswith("fn:"):
            return VFn(t[3:])
        if t in ("true", "false"):
            return VBool(t == "true")
        m = re.match(r"^(-?\d+)_(i8|i16|i32|i64|i128|isize|u8|u16|u32|u64|u128|usize)$", t)
        if m:
            b, s = INT_TYPES[m.group(2)]
            return VInt(z3.BitVecVal(int(m.group(1)), b), s)
        if t.startswith('"'):
            return VStr(t[1:-1])
        m = re.match(r"^'(.*)'$", t)
        if m:
            ch = m.group(1)
            esc = {"\\n": "\n", "\\t": "\t", "\\r": "\r", "\\\\": "\\", "\\'": "'", "\\x22": '"', "\\0": "\0"}
            ch = esc.get(ch, ch)
            um = re.match(r"^\\u\{([0-9a-fA-F]+)\}$", ch)
            code = int(um.group(1), 16) if um else ord(ch) if len(ch) == 1 else None
            if code is None:
                raise Unsupported("char const " + t)
            return VInt(z3.BitVecVal(code, 32), False)
        if t == "()":
            return VUnit()
        if re.match(r"^-?[\d.]+(e[+-]?\d+)?f(32|64)$", t) or t in ("f64::NAN", "f64::INFINITY"):
            return VOpaque("f64", self.new_vid(), "const " + t)
        if "::promoted[" in t or t.startswith("{alloc") or t.startswith("&"):
            return VOpaque("promoted", self.new_vid(), t[:40])
        nt = norm_ty(t)
        m = re.match(r"^(Option|Result|ControlFlow|Ordering)(?:::<(.*)>)?::(\w+)$", nt)
        if m:
            vs = BUILTIN_ENUMS[m.group(1)]
            idx = [i for i, (n, fs) in enumerate(vs) if n == m.group(3)]
            if idx and not vs[idx[0]][1]:
                return VAdt(m.group(1) + (f"<{m.group(2)}>" if m.group(2) else ""), idx[0], {idx[0]: []}, self.new_vid())
        # unit-like ADT constant or fn item, e.g. `JmpWhen::False` / `CelContext::new`
        m = re.match(r"^(?:.*::)?(\w+)::(\w+)$", t)
        if m and (m.group(1) in self.P.types.enums):
            return VAdt(m.group(1), self.P.types.variant_index(m.group(1), m.group(2)), {}, self.new_vid())
        cm = re.search(r"\{closure@[^}]*\}", t)
        if cm:
            return VStruct(cm.group(0), [], self.new_vid())
        if re.match(r"^ZeroSized|^\{", t):
            return VUnit()
        return VFn(t)

    def operand(self, frame, op):
        if op.kind == "const":
            pm = re.search(r"::promoted\[(\d+)\]$", op.const)
            if pm:
                f = self.P.promoted.get(frame.func.name + f"::promoted[{pm.group(1)}]")
                if f is not None:
                    return self.run_function(f, [], 3)
            cm = re.match(r"^(?:\w+::)*([A-Z][A-Z0-9_]*)$", op.const.strip())
            if cm and len(self.P.const_items.get(cm.group(1), [])) == 1:
                # a named const item of the crate (a table): evaluate its MIR body
                return self.run_function(self.P.const_items[cm.group(1)][0], [], 3)
            return self.const(op.const)
        root, path = self.resolve_place(frame, op.place)
        v = self.read(root, path)
        return vcopy(v)

    def int_binop(self, op, a, b):
        if isinstance(a, VBool) and isinstance(b, VBool):
            f = {"Eq": lambda x, y: x == y, "Ne": lambda x, y: x != y, "BitAnd": z3.And, "BitOr": z3.Or, "BitXor": z3.Xor}.get(op)
            if f is None:
                raise Unsupported("bool binop " + op)
            return VBool(f(a.b, b.b))
        if not isinstance(a, VInt) or not isinstance(b, VInt):
            # comparisons of opaque scalars (f64, pointers): uninterpreted
            if op in ("Eq", "Ne", "Lt", "Le", "Gt", "Ge"):
                return self.fresh_bool("cmp")
            return VOpaque("?", self.new_vid(), f"{op}")
        x, y, sg = a.bv, b.bv, a.signed
        if y.size() != x.size():
            y = z3.ZeroExt(x.size() - y.size(), y) if y.size() < x.size() else z3.Extract(x.size() - 1, 0, y)
        if op in ("Add", "AddUnchecked"):
            return VInt(x + y, sg)
        if op in ("Sub", "SubUnchecked"):
            return VInt(x - y, sg)
        if op in ("Mul", "MulUnchecked"):
            return VInt(x * y, sg)
        if op == "Div":
            return VInt(x / y if sg else z3.UDiv(x, y), sg)
        if op == "Rem":
            return VInt(z3.SRem(x, y) if sg else z3.URem(x, y), sg)
        if op == "BitAnd":
            return VInt(x & y, sg)
        if op == "BitOr":
            return VInt(x | y, sg)
        if op == "BitXor":
            return VInt(x ^ y, sg)
        if op in ("Shl", "ShlUnchecked"):
            return VInt(x << y, sg)
        if op in ("Shr", "ShrUnchecked"):
            return VInt(x >> y if sg else z3.LShR(x, y), sg)
        if op == "Eq":
            return VBool(x == y)
        if op == "Ne":
            return VBool(x != y)
        if op == "Lt":
            return VBool(x < y if sg else z3.ULT(x, y))
        if op == "Le":
            return VBool(x <= y if sg else z3.ULE(x, y))
        if op == "Gt":
            return VBool(x > y if sg else z3.UGT(x, y))
        if op == "Ge":
            return VBool(x >= y if sg else z3.UGE(x, y))
        if op in ("AddWithOverflow", "SubWithOverflow", "MulWithOverflow"):
            n = x.size()
            ext = (lambda v: z3.SignExt(n, v)) if sg else (lambda v: z3.ZeroExt(n, v))
            wx, wy = ext(x), ext(y)
            wide = {"AddWithOverflow": wx + wy, "SubWithOverflow": wx - wy, "MulWithOverflow": wx * wy}[op]
            res = z3.Extract(n - 1, 0, wide)
            ovf = ext(res) != wide
            return VTuple([VInt(res, sg), VBool(ovf)])
        if op == "Cmp":
            raise Unsupported("Cmp")
        raise Unsupported("binop " + op)

    def seq_len_value(self, seq):
        if isinstance(seq.length, int):
            return VInt(z3.BitVecVal(seq.length, 64), False)
        return VInt(seq.length, False)

    def rvalue(self, frame, rv, dest_ty):
        k = rv.kind
        if k == "use":
            return self.operand(frame, rv.op)
        if k == "fnitem":
            return VFn(rv.path)
        if k == "ref":
            root, path = self.resolve_place(frame, rv.place)
            return VRef(root, path, rv.mut)
        if k == "binop":
            return self.int_binop(rv.op, self.operand(frame, rv.a), self.operand(frame, rv.b))
        if k == "unop":
            a = self.operand(frame, rv.a)
            if rv.op == "Not":
                if isinstance(a, VBool):
                    return VBool(z3.Not(a.b))
                if isinstance(a, VInt):
                    return VInt(~a.bv, a.signed)
            if rv.op == "Neg" and isinstance(a, VInt):
                return VInt(-a.bv, a.signed)
            if rv.op == "PtrMetadata":
                if isinstance(a, VRef):
                    t = self.read(a.root, a.path)
                    if isinstance(t, VSeq):
                        return self.seq_len_value(t)
                if isinstance(a, VStr):
                    return VInt(z3.BitVecVal(len(a.s.encode()), 64), False)
                return self.fresh_int(64, False, "meta")
            raise Unsupported(f"unop {rv.op} on {a!r}")
        if k == "discriminant":
            root, path = self.resolve_place(frame, rv.place)
            v = self.read(root, path)
            if isinstance(v, VAdt):
                if isinstance(v.discr, int):
                    return VInt(z3.BitVecVal(v.discr, 64), True)
                return VInt(v.discr, True)
            if isinstance(v, VInt):
                return v
            raise Unsupported(f"discriminant of {v!r}")
        if k == "len":
            root, path = self.resolve_place(frame, rv.place)
            return self.seq_len_value(self.read(root, path))
        if k == "cast":
            a = self.operand(frame, rv.op)
            ty = norm_ty(rv.ty)
            if isinstance(a, VInt) and ty in INT_TYPES:
                b, s = INT_TYPES[ty]
                if b == a.bits:
                    return VInt(a.bv, s)
                if b < a.bits:
                    return VInt(z3.Extract(b - 1, 0, a.bv), s)
                return VInt(z3.SignExt(b - a.bits, a.bv) if a.signed else z3.ZeroExt(b - a.bits, a.bv), s)
            if isinstance(a, VBool) and ty in INT_TYPES:
                b, s = INT_TYPES[ty]
                return VInt(z3.If(a.b, z3.BitVecVal(1, b), z3.BitVecVal(0, b)), s)
            # pointer / unsize / fn casts: same value
            return a
        if k == "tuple":
            return VTuple([self.operand(frame, o) for o in rv.ops])
        if k == "array":
            items = [self.operand(frame, o) for o in rv.ops]
            return VSeq("?", len(items), items, self.new_vid())
        if k == "repeat":
            v = self.operand(frame, rv.op)
            return VSeq("?", rv.n, [vcopy(v) for _ in range(rv.n)], self.new_vid())
        if k == "closure":
            m = re.match(r"^(\{closure@[^}]*\})(?: \{ (.*) \})?$", rv.text, re.S)
            caps = []
            if m and m.group(2):
                for part in mp.split_top(m.group(2)):
                    fm = re.match(r"^(\w+): (.*)$", part, re.S)
                    caps.append(self.operand(frame, mp.parse_operand(fm.group(2) if fm else part)))
            return VStruct(m.group(1) if m else "closure", caps, self.new_vid())
        if k == "adt":
            return self.aggregate(frame, rv, dest_ty)
        raise Unsupported("rvalue " + k)

    def aggregate(self, frame, rv, dest_ty):
        segs = [x for x in path_segments(norm_ty(rv.path)) if x]
        vals = [self.operand(frame, o) for _, o in rv.fields]
        dty = norm_ty(dest_ty) if dest_ty else segs[0]
        T = self.P.types
        # enum variant?
        if len(segs) >= 2 and (segs[-2] in T.enums or segs[-2] in BUILTIN_ENUMS):
            en, vn = segs[-2], segs[-1]
            vs = BUILTIN_ENUMS.get(en) or T.enums[en]
            idx = [i for i, (n, _) in enumerate(vs) if n == vn][0]
            if rv.named:
                order = [fn for fn, _ in vs[idx][1]]
                byname = {fn: v for (fn, _), v in zip(rv.fields, vals)}
                vals = [byname[fn] for fn in order]
            ty = dty if base_ty(dty) == en else en
            return VAdt(ty, idx, {idx: vals}, self.new_vid())
        sn = segs[-1]
        if sn in T.structs:
            if rv.named:
                order = [fn for fn, _ in T.structs[sn]]
                byname = {fn: v for (fn, _), v in zip(rv.fields, vals)}
                vals = [byname.get(fn) for fn in order]
            return VStruct(dty if base_ty(dty) == sn else sn, vals, self.new_vid())
        if sn == "Range":
            byname = {fn: v for (fn, _), v in zip(rv.fields, vals)}
            return VStruct("Range", [byname["start"], byname["end"]], self.new_vid())
        # unknown aggregate (std struct / derive-local enum): keep the path and the fields positionally
        return VStruct("::".join(segs) if len(segs) > 1 else (dty or sn), vals, self.new_vid())

    # ---- running
    def run_function(self, func, args, depth=0, subst=None):
        if depth > self.cfg.get("max_call_depth", 12):
            raise Unsupported("call depth")
        self.nframes += 1
        frame = Frame(self.nframes, func, subst)
        self.used["inlined"].add(func.name)
        for (idx, _), a in zip(func.params, args):
            self.mem[self.local_key(frame, idx)] = a
        bb = 0
        visits = {}
        while True:
            self.steps += 1
            if self.steps > self.cfg.get("max_steps", 200000):
                raise PathEnd("bound", "step budget")
            visits[bb] = visits.get(bb, 0) + 1
            if visits[bb] > self.cfg.get("loop_bound", 12):
                raise PathEnd("bound", f"loop bound at {func.short} bb{bb}")
            block = func.blocks[bb]
            for s in block.stmts:
                self.where = (func.short, bb, s)
                st = self.P_parse_stmt(s)
                if st.kind == "nop":
                    continue
                if st.kind == "assign":
                    dest_ty = func.locals.get(st.place.local) if not st.place.proj else None
                    val = self.rvalue(frame, st.rv, dest_ty)
                    root, path = self.resolve_place(frame, st.place)
                    self.write(root, path, val)
                elif st.kind == "setdiscr":
                    root, path = self.resolve_place(frame, st.place)
                    v = self.read(root, path)
                    v.discr = st.idx
                else:
                    raise Unsupported("stmt " + st.kind)
            self.where = (func.short, bb, block.term)
            t = self.P_parse_term(block.term)
            k = t.kind
            if k == "goto":
                bb = t.target
            elif k == "return":
                return self.mem.get(self.local_key(frame, 0), VUnit())
            elif k == "switch":
                v = self.operand(frame, t.op)
                if isinstance(v, VBool):
                    c = v.concrete()
                    if c is None:
                        c = self.branch_bool(v.b, f"{func.short}.bb{bb}")
                    val = 1 if c else 0
                    tgt = dict(t.arms).get(val, t.otherwise)
                    bb = tgt
                elif isinstance(v, VInt):
                    c = v.concrete()
                    if c is not None:
                        # arms are printed as unsigned bit patterns
                        cu = c % (1 << v.bits)
                        bb = dict(t.arms).get(cu, t.otherwise)
                    else:
                        opts = [(str(a), v.bv == z3.BitVecVal(a, v.bits)) for a, _ in t.arms]
                        if t.otherwise is not None:
                            opts.append(("otherwise", z3.And([v.bv != z3.BitVecVal(a, v.bits) for a, _ in t.arms])))
                        i = self.branch(opts, f"{func.short}.bb{bb}")
                        bb = t.arms[i][1] if i < len(t.arms) else t.otherwise
                else:
                    raise Unsupported(f"switch on {v!r}")
                if bb is None:
                    raise PathEnd("panic", "switch without target")
            elif k == "assert":
                v = self.operand(frame, t.op)
                cond = v.b if not t.negate else z3.Not(v.b)
                if self.branch_bool(cond, f"{func.short}.bb{bb}.assert"):
                    bb = t.target
                else:
                    raise PathEnd("panic", f"assertion failed in {func.short}: {t.msg[:60]}")
            elif k == "drop":
                self.do_drop(frame, t.place, func, depth)
                bb = t.target
            elif k == "call":
                ret = self.do_call(frame, t, depth)
                if t.target is None:
                    raise PathEnd("panic", f"diverging call {t.callee[:60]}")
                root, path = self.resolve_place(frame, t.dest)
                self.write(root, path, ret)
                bb = t.target
            elif k == "unreachable":
                raise PathEnd("panic", f"unreachable reached in {func.short} bb{bb}")
            elif k == "resume":
                raise PathEnd("panic", "resume")
            else:
                raise Unsupported("terminator " + k)

    _stmt_cache = {}
    _term_cache = {}

    def P_parse_stmt(self, s):
        r = Executor._stmt_cache.get(s)
        if r is None:
            r = Executor._stmt_cache[s] = mp.parse_stmt(s)
        return r

    def P_parse_term(self, s):
        r = Executor._term_cache.get(s)
        if r is None:
            r = Executor._term_cache[s] = mp.parse_term(s)
        return r

    def do_drop(self, frame, place, func, depth):
        """run a user Drop impl when the dropped place's type has one in the dump"""
        if place.proj:
            return
        ty = norm_ty(func.locals.get(place.local, ""))
        f = self.P.drops.get(base_ty(ty))
        if f is None:
            return
        key = self.local_key(frame, place.local)
        if key not in self.mem:
            return
        self.trace.append(Event("drop:" + base_ty(ty), [], None))
        self.run_function(f, [VRef(key, (), True)], depth + 1)

    def do_call(self, frame, t, depth):
        import models
        callee = t.callee
        # inside a generic function: replace its type parameters by the caller's type arguments
        for g, a in frame.subst.items():
            callee = re.sub(rf"\b{g}\b", a, callee)
        args = [self.operand(frame, a) for a in t.args]
        ret_ty = None
        if not t.dest.proj:
            ret_ty = frame.func.locals.get(t.dest.local)
        ncallee = norm_ty(callee)
        # 1. target-specific models, 2. built-in models
        for table in (self.cfg.get("models", []), models.BUILTIN):
            for pat, fn in table:
                if re.search(pat, ncallee):
                    r = fn(self, ncallee, args, ret_ty, frame)
                    if r is not models.NOT_HANDLED:
                        self.used["modelled"].add(ncallee)
                        return r
        # 3. inline rscel functions that the target asked for
        f = None if callee.startswith(("move ", "copy ")) else self.P.resolve(callee)
        sub = self.generic_subst(f, callee) if f is not None else None
        if f is not None and any(re.search(p, ncallee) or re.search(p, f.name) for p in self.cfg.get("inline", [])):
            return self.run_function(f, args, depth + 1, sub)
        # rscel functions the target did not single out: executed from their MIR as well (so that a
        # refactoring into helper functions is followed), unless the target keeps them uninterpreted
        if f is not None and self.cfg.get("inline_default") and not any(re.search(p, ncallee) for p in self.cfg.get("keep_uninterpreted", [])):
            return self.run_function(f, args, depth + 1, sub)
        # 4. havoc - only for calls that cannot write through their arguments; anything else is an
        #    unmodelled effect and makes the path (and the target) inconclusive rather than wrong
        for a in args:
            if isinstance(a, VRef) and a.mut:
                raise Unsupported(f"unmodelled call with a &mut argument: {ncallee}")
        return self.havoc(ncallee, args, ret_ty)

    def call_closure(self, clo, args, depth=3):
        """run the MIR of a closure value (VStruct whose type is its `{closure@..}` location)"""
        cv = clo
        if isinstance(cv, VRef):
            cv = self.read(cv.root, cv.path)
        f = self.P.closures.get(getattr(cv, "ty", None))
        if f is None:
            return None
        # first parameter: the closure itself (by value, & or &mut according to its Fn kind)
        pty = f.params[0][1].strip()
        if pty.startswith("&"):
            self_arg = clo if isinstance(clo, VRef) else VRef(self.heap(cv, "closure"), (), "mut" in pty[:5])
        else:
            self_arg = cv
        return self.run_function(f, [self_arg] + list(args), depth)

    def generic_subst(self, f, callee):
        """{type parameter: type argument} for a call `path::<A1, A2>(..)` of a generic function: the
        parameters are the single-capital-letter type names of the callee's signature, in order
        of first appearance (closure-typed parameters, printed as F, are matched by value instead)"""
        m = re.search(r"::<([^()]*)>$", callee.strip())
        if not m:
            return None
        targs = [norm_ty(a) for a in mp.split_top(m.group(1))]
        names = []
        for g in re.findall(r"\b([A-Z])\b", f.header):
            if g not in names:
                names.append(g)
        if not names:
            return None
        return {g: a for g, a in zip(names, targs) if not a.startswith("{closure")}

    def havoc(self, name, args, ret_ty, extra=None):
        self.used["havocked"].add(name)
        for a in args:
            if isinstance(a, VRef) and a.mut and not self.cfg.get("havoc_keeps_mut_args", True):
                raise Unsupported("havoc of &mut argument")
        ret = self.fresh(ret_ty, tag="ret:" + base_ty(name.split("::")[-1])) if ret_ty else VUnit()
        self.trace.append(Event(name, args, ret, extra))
        return ret


# ------------------------------------------------------------------------------------- driver
class PathResult:
    def __init__(self, ex, outcome, ret, msg=""):
        self.ex = ex
        self.outcome = outcome  # 'return' | 'panic' | 'bound' | 'unsupported' | 'infeasible'
        self.ret = ret
        self.msg = msg


def explore(program, config, entry, make_args, on_path, max_paths=20000, time_budget=600):
    """Enumerate all paths of `entry` (a Func). `make_args(ex)` builds the symbolic arguments.
    `on_path(PathResult)` is called for every completed path."""
    work = [[]]
    stats = dict(paths=0, returned=0, panics=0, bound=0, unsupported=0, infeasible=0, solver_calls=0, solver_time=0.0, steps=0)
    used = {"inlined": set(), "modelled": set(), "havocked": set()}
    t0 = time.time()
    unsupported_msgs = []
    while work:
        if stats["paths"] >= max_paths or time.time() - t0 > time_budget:
            stats["truncated"] = True
            break
        dec = work.pop()
        ex = Executor(program, config, dec)
        try:
            args = make_args(ex)
            ret = entry(ex, args) if callable(entry) else ex.run_function(entry, args)   # a callable entry composes several functions on one path
            res = PathResult(ex, "return", ret)
        except PathEnd as e:
            res = PathResult(ex, e.kind, None, e.msg)
        except Unsupported as e:
            w = getattr(ex, "where", None)
            msg = str(e) + (f" [in {w[0]} bb{w[1]}: {w[2][:140]}]" if w else "")
            res = PathResult(ex, "unsupported", None, msg)
            unsupported_msgs.append(msg)
        work.extend(ex.new_alternatives)
        stats["paths"] += 1
        stats[{"return": "returned", "panic": "panics", "bound": "bound", "unsupported": "unsupported", "infeasible": "infeasible"}[res.outcome]] += 1
        stats["solver_calls"] += ex.solver_calls
        stats["solver_time"] += ex.solver_time
        stats["steps"] += ex.steps
        for k in used:
            used[k] |= ex.used[k]
        if res.outcome != "infeasible":
            on_path(res)
    stats["wall"] = time.time() - t0
    stats["unsupported_msgs"] = sorted(set(unsupported_msgs))[:10]
    return stats, used
