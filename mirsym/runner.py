"""Runs mirsym targets: `runner.py --mir dump.mir --repo /repo [--only name,...] [--json out]`"""
import argparse, json, sys, time, os, traceback
sys.path.insert(0, os.path.dirname(os.path.abspath(__file__)))
import engine, specutil


def all_targets():
    import t_macros
    ts = list(t_macros.TARGETS)
    for mod in ("t_vm", "t_values", "t_compile", "t_serde", "t_token", "t_details", "t_dispatch", "t_parse", "t_grammar", "t_clock", "t_sql"):
        try:
            m = __import__(mod)
            ts += m.TARGETS
        except ImportError:
            pass
    return ts


def slim(failures, full=12, cap=400):
    """all failures keep their label and replay scenario (distinct scenarios only); the first few keep the full record"""
    out, seen = [], set()
    for i, f in enumerate(failures):
        key = json.dumps(f.get("scenario"), sort_keys=True, default=str)
        if i >= full and key in seen:
            continue
        seen.add(key)
        out.append(f if i < full else {"label": f["label"], "scenario": f.get("scenario"), "detail": (f.get("detail") or "")[:200] if isinstance(f.get("detail"), str) else None})
        if len(out) >= cap:
            break
    return out


def run_special(P, t):
    """targets that orchestrate several explorations themselves"""
    V = specutil.Verdicts(t["name"])
    t0 = time.time()
    try:
        st = t["special"](P, t, V)
    except Exception as e:
        traceback.print_exc()
        return dict(name=t["name"], props=t["props"], status="inconclusive", why=f"engine error: {type(e).__name__}: {e}", obligations=V.obligations, discharged=V.discharged, failures=V.failures, paths=0)
    stats = (st or {}).get("stats", {"paths": 0, "returned": 0, "solver_calls": 0, "solver_time": 0.0, "unsupported": 0, "bound": 0, "unsupported_msgs": []})
    used = (st or {}).get("used", {"inlined": set(), "modelled": set(), "havocked": set()})
    status, why = "proved", ""
    if V.failures:
        status = "failed"
    elif V.inconclusive or stats["unsupported"]:
        status, why = "inconclusive", f"{V.inconclusive[:3]} {stats['unsupported_msgs'][:3]}"
    elif V.obligations == 0:
        status = "vacuous"
    return dict(name=t["name"], props=t["props"], status=status, why=why, what=t.get("what", ""), entry="derive-generated impls", mir_lines=0,
                obligations=V.obligations, discharged=V.discharged, failures=V.failures[:12], nfailures=len(V.failures), paths=stats["paths"], witnesses=V.witnesses,
                stats={k: v for k, v in stats.items() if k != "unsupported_msgs"}, inlined=sorted(used["inlined"]), modelled=sorted(used["modelled"]),
                havocked=sorted(used["havocked"]), bounds=t.get("bounds", {}), solver_time=round(stats["solver_time"] + V.solver_time, 3),
                solver_calls=stats["solver_calls"] + V.solver_calls, wall=round(time.time() - t0, 2))


def run_target(P, t, time_budget=600):
    if "special" in t:
        return run_special(P, t)
    V = specutil.Verdicts(t["name"])
    try:
        if callable(t["func"]):
            f = t["func"](P)
        else:
            f = t["func"] if not isinstance(t["func"], str) else specutil.find_func(P, t["func"], t.get("self_ty"))
    except KeyError as e:
        return dict(name=t["name"], props=t["props"], status="inconclusive", why=f"entry function not found: {e}", obligations=0, discharged=0, failures=[], paths=0)
    def on_path(res):
        V.paths += 1
        t["check"](res, V)
    t0 = time.time()
    try:
        cfg = t["cfg"] if t.get("cfg") is not None else t["cfg_fn"]()
        stats, used = engine.explore(P, cfg, f, lambda ex: t["make_args"](ex, f), on_path, time_budget=time_budget, max_paths=t.get("max_paths", 20000))
    except Exception as e:
        traceback.print_exc()
        return dict(name=t["name"], props=t["props"], status="inconclusive", why=f"engine error: {type(e).__name__}: {e}", obligations=V.obligations, discharged=V.discharged, failures=V.failures, paths=V.paths)
    status = "proved"
    why = ""
    if V.failures:
        status = "failed"
    elif stats.get("truncated") or stats["unsupported"] or V.inconclusive or stats["bound"] > t.get("allow_bound", 0):
        status = "inconclusive"
        why = f"truncated={stats.get('truncated')} unsupported={stats['unsupported']} {stats['unsupported_msgs']} bound={stats['bound']} notes={V.inconclusive[:3]}"
    elif V.obligations == 0:
        status = "vacuous"
    return dict(name=t["name"], props=t["props"], status=status, why=why, what=t.get("what", ""), entry=f.name, mir_lines=f.nlines,
                obligations=V.obligations, discharged=V.discharged, failures=slim(V.failures), nfailures=len(V.failures), paths=V.paths, witnesses=V.witnesses,
                stats={k: v for k, v in stats.items() if k != "unsupported_msgs"}, inlined=sorted(used["inlined"]), modelled=sorted(used["modelled"]),
                havocked=sorted(used["havocked"]), bounds=t.get("bounds", {}), solver_time=round(stats["solver_time"] + V.solver_time, 3),
                solver_calls=stats["solver_calls"] + V.solver_calls, wall=round(time.time() - t0, 2))


def main():
    ap = argparse.ArgumentParser()
    ap.add_argument("--mir", default=None)
    ap.add_argument("--mir-sql", default=None, help="MIR dump of extensions/to_sql (targets with needs='to_sql')")
    ap.add_argument("--list", action="store_true")
    ap.add_argument("--repo", default="/repo")
    ap.add_argument("--only", default=None)
    ap.add_argument("--prop", default=None)
    ap.add_argument("--json", default=None)
    ap.add_argument("-v", action="store_true")
    ap.add_argument("--only-explicit", action="store_true", help="--only names were typed by a person: ignore tiers")
    a = ap.parse_args()
    if a.list:
        tier = os.environ.get("MIRSYM_TIER", "quick")
        for t in all_targets():
            if (not a.prop or a.prop in t["props"]) and (t.get("tier", "quick") == "quick" or tier == "thorough"):
                print(t["name"])
        return
    P = specutil.load_program(a.repo, a.mir)
    out = []
    tier = os.environ.get("MIRSYM_TIER", "quick")
    for t in all_targets():
        if a.only and t["name"] not in a.only.split(","):
            continue
        if t.get("tier", "quick") == "thorough" and tier != "thorough" and not a.only_explicit:
            continue
        if a.prop and a.prop not in t["props"]:
            continue
        if t.get("needs") == "to_sql":
            if not a.mir_sql:
                r = dict(name=t["name"], props=t["props"], status="inconclusive", why="no MIR dump of extensions/to_sql was given (--mir-sql)", obligations=0, discharged=0, failures=[], paths=0)
            else:
                r = run_target(specutil.load_program(a.repo, a.mir, extra_mir=a.mir_sql), t, time_budget=2400 if tier == "thorough" else 600)
        else:
            r = run_target(P, t, time_budget=2400 if tier == "thorough" else 600)
        out.append(r)
        print(f"{r['name']:28s} {r['status']:12s} paths={r['paths']} obligations={r['discharged']}/{r['obligations']} solver={r.get('solver_time')}s wall={r.get('wall')}s {r.get('why','')}", flush=True)
        if a.v or r["status"] == "failed":
            for fl in r["failures"][:3]:
                print("   FAIL", fl["label"], "|", fl["detail"], "\n      choices:", fl["choices"][-8:])
                for e in fl["trace"][:14]:
                    print("        ", e[:160])
            if a.v:
                print("   witnesses", r.get("witnesses"))
                print("   havocked", r.get("havocked")); print("   modelled", r.get("modelled")); print("   inlined", r.get("inlined"))
    if a.json:
        json.dump(out, open(a.json, "w"), indent=1, default=str)


if __name__ == "__main__":
    main()
