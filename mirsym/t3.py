import sys
sys.path.insert(0,'/verif/mirsym')
import engine, specutil, t_vm, z3
P=specutil.load_program('/repo','/tmp/mir/rscel.mir')
t=[x for x in t_vm.TARGETS if x['name']==sys.argv[1]][0]
f=specutil.find_func(P,'run_raw','Interpreter')
n=0
def on(res):
    global n
    ex=res.ex
    if res.outcome!='return': return
    ops=[e for e in ex.trace if e.extra is not None]
    def ref(A):
        vm=t_vm.RefVM(A,ex,ops)
        orig=vm.step
        def step(op,ins,pc,nn):
            r=orig(op,ins,pc,nn); vm.log.append((op,pc,r)); return r
        vm.log=[]; vm.step=step
        try: v=vm.run(ex.notes['prog'], ex.notes['resolve']); return ('ok',v,vm.log)
        except t_vm.Halt as h: return ('err',h.kind,vm.log)
        except t_vm.RefOutside as e: return ('outside',str(e),vm.log)
    out=specutil.run_reference(ex,ref)
    for a,o in out:
        if o[0]=='outside' and n<3:
            n+=1
            print('choices',ex.choices); print('  ret',res.ret); print('  ref',o)
engine.explore(P,t['cfg'],f,lambda ex:t['make_args'](ex,f),on,time_budget=60)
