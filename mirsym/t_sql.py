"""Targets: the CEL-to-SQL translator (extensions/to_sql) on the syntax trees the real parser
builds for token templates (property C20).

One path = the real parser (rscel MIR) on a token template, then `IntoSqlBuilder::
into_sql_builder` and `SqlBuilder::to_sql` (to_sql MIR, dynamic dispatch on the concrete
builder types) on the tree it returned.  Strings are kept as *part lists*: literal text of the
`format!` templates and of string constants, and atoms - the spelling of an identifier token,
the rendering of an integer literal token, the content of a string literal token (a sequence of
up to 3 symbolic characters).  `format!` is executed from its compiled template (the byte
string rustc lowers it to), `join`, `to_owned`, `clone`, `str::replace` on part lists.

The SQL text (a part list) is tokenized and parsed by an independent parser for the SQL the
translator emits, atoms being single tokens, and the resulting tree is compared with the
reference parser's tree of the CEL token sequence (t_grammar.RefParser): same operators, same
operand order and grouping, calls with the same name and arguments in source order alone and
in chains, the same field/index paths, casts for the type constructors.  A string literal must
come out as exactly one SQL string literal with the same content: the content is 2 symbolic
printable-ASCII characters, the string functions the translator applies to it (`replace`,
`find`, slicing, `push`, `push_str`, `chars`) are executed on them, and for every case of which
of the characters are quotes (enumerated by the solver) the emitted text is lexed as SQL and
must read back as that content.
Constructs without a translation must be an `Unsupported` error; no path may panic."""
import re
import z3

import engine
import models
from engine import VAdt, VBool, VInt, VOpaque, VRef, VSeq, VStruct, VTuple, VUnit, VStr, VIter, base_ty, vcopy, norm_ty
from specutil import is_variant, run_reference, vid_of, find_func
import t_parse as TP
import t_grammar as TG


class Entry:
    """parse_expression, then the translator on the tree it returns"""
    name = "CelCompiler::parse_expression ; <Expr as IntoSqlBuilder>::into_sql_builder ; <dyn SqlBuilder>::to_sql"
    nlines = 0

    def __init__(self, P):
        self.P = P
        self.parse = TP.entry(P)
        cands = [f for f in P.trait_impls.get(("Expr", "IntoSqlBuilder", "into_sql_builder"), [])]
        if len(cands) != 1:
            raise KeyError(f"<Expr as IntoSqlBuilder>::into_sql_builder: {len(cands)} candidates")
        self.into = cands[0]
        self.nlines = self.parse.nlines + self.into.nlines

    def __call__(self, ex, args):
        ret = ex.run_function(self.parse, args)
        ex.notes["parse_ret"] = ret
        parts = TP.result_parts(ex, ret)
        if parts is None:
            return ("syntax-error", ret)
        ast = parts[1]
        node = ast.fields[1]
        b = ex.run_function(self.into, [VRef(ex.heap(node, "ast"))])
        ex.notes["builder"] = b
        if not isinstance(b.discr, int):
            raise engine.Unsupported("builder result with a symbolic variant")
        if b.discr != 0:
            return ("unsupported", b)
        builder = ex.adt_fields(b, 0)[0]
        r = dyn_to_sql(ex, builder)
        return ("sql", r)


# ----------------------------------------------------------------------------- strings as part lists
def parts_of(ex, v):
    """the part list of a string value"""
    if isinstance(v, VRef):
        v = TG.unref_all(ex, v)
    if isinstance(v, VStr):
        return [v.s]
    table = ex.notes.setdefault("strparts", {})
    vid = getattr(v, "vid", None)
    if vid in table:
        return list(table[vid])
    tag = getattr(v, "tag", None) or ""
    if tag.startswith("name:"):
        return [("ident", tag[5:])]
    if tag.startswith("lit:"):
        return [tag[4:]]
    if tag.startswith("strlit:"):
        i = int(tag[7:])
        return [("ch", i, j) for j in range(len(ex.notes.get("strchars", {}).get(i, [])))]
    return [("opaque", vid, tag)]


def mk_string(ex, parts, ty="String"):
    v = VOpaque(ty, ex.new_vid(), "built")
    ex.notes.setdefault("strparts", {})[v.vid] = list(parts)
    return v


def parse_template(bs):
    """rustc's compiled format template: length-prefixed literal pieces (< 0x80), 0xC0 = the next
    argument with default formatting, 0x00 = end"""
    out, i = [], 0
    while i < len(bs):
        b = bs[i]
        if b == 0:
            break
        if b < 0x80:
            out.append(bytes(bs[i + 1:i + 1 + b]).decode("utf-8"))
            i += 1 + b
        elif b == 0xC0:
            out.append(None)
            i += 1
        else:
            raise engine.Unsupported(f"format template byte {b:#x}")
    return out


def byte_string(text):
    """b"..." as rustc prints it -> bytes"""
    m = re.match(r'^b"(.*)"$', text.strip(), re.S)
    if not m:
        return None
    s, out, i = m.group(1), bytearray(), 0
    while i < len(s):
        if s[i] == "\\":
            c = s[i + 1]
            if c == "x":
                out.append(int(s[i + 2:i + 4], 16))
                i += 4
            else:
                out.append({"n": 10, "t": 9, "r": 13, "\\": 92, '"': 34, "'": 39, "0": 0}[c])
                i += 2
        else:
            out += s[i].encode("utf-8")
            i += 1
    return bytes(out)


def m_argument_display(ex, callee, args, ret_ty, frame):
    v = TG.unref_all(ex, args[0])
    return VStruct("Argument", [v], ex.new_vid())


def m_arguments_new(ex, callee, args, ret_ty, frame):
    t = args[0]
    tmpl = getattr(t, "tag", None) if isinstance(t, VOpaque) else getattr(t, "name", None)
    bs = byte_string(tmpl) if tmpl else None
    if bs is None:
        raise engine.Unsupported(f"format template {t!r}")
    arr = TG.unref_all(ex, args[1])
    try:
        pieces = parse_template(bs)
    except engine.Unsupported:
        pieces = "opaque"          # a message with {:?} or padding: never SQL text, kept as one unknown string
    return VStruct("Arguments", [VStr(repr(pieces)), arr], ex.new_vid())


def render_display(ex, v):
    if isinstance(v, VInt):
        i = TG.literal_token(ex, v)
        return [("intlit", i)] if i is not None else [("int", str(v.bv))]
    return parts_of(ex, v)


def m_format(ex, callee, args, ret_ty, frame):
    a = args[0]
    if not (isinstance(a, VStruct) and a.ty == "Arguments"):
        return models.NOT_HANDLED
    pieces = eval(a.fields[0].s)
    argv = a.fields[1].items
    if pieces == "opaque" or any(not isinstance(x, VStruct) for x in argv):
        return mk_string(ex, [("opaque", ex.new_vid(), "a formatted message")])
    out, k = [], 0
    for p in pieces:
        if p is None:
            out += render_display(ex, argv[k].fields[0])
            k += 1
        else:
            out.append(p)
    return mk_string(ex, out)


def m_to_owned(ex, callee, args, ret_ty, frame):
    return mk_string(ex, parts_of(ex, args[0]))


def m_string_clone(ex, callee, args, ret_ty, frame):
    v = TG.unref_all(ex, args[0])
    if isinstance(v, VOpaque) and v.ty in ("String", "str"):
        return mk_string(ex, parts_of(ex, v))
    return models.NOT_HANDLED


def m_join(ex, callee, args, ret_ty, frame):
    seq = TG.unref_all(ex, args[0])
    sep = parts_of(ex, args[1])
    if not isinstance(seq, VSeq) or not isinstance(seq.length, int):
        return models.NOT_HANDLED
    out = []
    for i, it in enumerate(seq.items):
        if i:
            out += sep
        out += parts_of(ex, it)
    return mk_string(ex, out)


def m_str_replace(ex, callee, args, ret_ty, frame):
    """str::replace(from, to): literal text is rewritten; the symbolic content of a string literal
    becomes `content with every `from` replaced by `to`` (judged character by character later)"""
    frm = args[1]
    f = chr(frm.concrete()) if isinstance(frm, VInt) and frm.concrete() is not None else getattr(TG.unref_all(ex, frm), "s", None)
    to_p = parts_of(ex, args[2])
    if f is None or len(f) != 1 or len(to_p) != 1 or not isinstance(to_p[0], str):
        raise engine.Unsupported("str::replace with a pattern that is not one known character")
    out = []
    for p in parts_of(ex, args[0]):
        if isinstance(p, str):
            out.append(p.replace(f, to_p[0]))
        elif p[0] == "ch":
            out.append(("repl", p, ord(f), to_p[0]))
        elif p[0] == "ident":
            out.append(p if f not in p[1] else ("ident", p[1].replace(f, to_p[0])))
        else:
            raise engine.Unsupported(f"str::replace on {p}")
    return mk_string(ex, out)


def char_items(ex, parts):
    """a part list as single characters: literal text character by character, symbolic content
    characters as they are; anything else cannot be indexed"""
    out = []
    for p in parts:
        if isinstance(p, str):
            out += list(p)
        elif p[0] == "ch":
            out.append(p)
        else:
            raise engine.Unsupported(f"character access into {p}")
    return out


def char_value(ex, it):
    if isinstance(it, str):
        return z3.BitVecVal(ord(it), 32)
    return ex.notes["strchars"][it[1]][it[2]].bv


def item_of_char(ex, v):
    """the part a `char` value stands for: a known character, or one of the symbolic content characters"""
    c = v.concrete() if isinstance(v, VInt) else None
    if c is not None:
        return chr(c)
    for i, cs in ex.notes.get("strchars", {}).items():
        for j, x in enumerate(cs):
            if isinstance(v, VInt) and v.bv.eq(x.bv):
                return ("ch", i, j)
    raise engine.Unsupported("a character of unknown origin is written into a string")


def pattern_char(ex, v):
    v = TG.unref_all(ex, v)
    if isinstance(v, VInt) and v.concrete() is not None:
        return v.concrete()
    s_ = getattr(v, "s", None)
    if isinstance(s_, str) and len(s_) == 1:
        return ord(s_)
    raise engine.Unsupported("a search pattern that is not one known character")


def m_str_len(ex, callee, args, ret_ty, frame):
    """len in bytes = number of characters (the symbolic content characters are ASCII by assumption)"""
    return VInt(z3.BitVecVal(len(char_items(ex, parts_of(ex, args[0]))), 64), False)


def m_str_find_char(ex, callee, args, ret_ty, frame):
    """str::find(char): the index of the first matching character - one path per possible answer"""
    items = char_items(ex, parts_of(ex, args[0]))
    pat = pattern_char(ex, args[1])
    conds, prev = [], []
    for i, it in enumerate(items):
        m = char_value(ex, it) == pat
        conds.append((str(i), z3.And(prev + [m])))
        prev = prev + [z3.Not(m)]
    conds.append(("none", z3.And(prev + [z3.BoolVal(True)])))
    k = ex.branch(conds, "str::find")
    rt = norm_ty(ret_ty) if ret_ty else "Option<usize>"
    if k == len(items):
        return models.mk_option(ex, rt)
    return models.mk_option(ex, rt, VInt(z3.BitVecVal(k, 64), False))


def m_str_slice(ex, callee, args, ret_ty, frame):
    """&s[a..b] with known bounds"""
    items = char_items(ex, parts_of(ex, args[0]))
    r = args[1]
    kind = re.search(r"Index<(RangeToInclusive|RangeTo|RangeFrom|RangeInclusive|Range)<usize>>", callee).group(1)
    f = [x.concrete() if isinstance(x, VInt) else None for x in r.fields]
    if any(x is None for x in f[:2 if kind in ("Range", "RangeInclusive") else 1]):
        raise engine.Unsupported("a slice with a symbolic bound")
    lo, hi = {"RangeToInclusive": (0, f[0] + 1), "RangeTo": (0, f[0]), "RangeFrom": (f[0], len(items)), "Range": (f[0], f[1] if len(f) > 1 else None), "RangeInclusive": (f[0], (f[1] + 1) if len(f) > 1 else None)}[kind]
    if hi is None or lo > hi or hi > len(items):
        raise engine.PathEnd("panic", "string slice out of range")
    return VRef(ex.heap(mk_string(ex, items[lo:hi], "str"), "slice"))


def m_string_push(ex, callee, args, ret_ty, frame):
    sv = TG.unref_all(ex, args[0])
    table = ex.notes.setdefault("strparts", {})
    table[sv.vid] = parts_of(ex, sv) + [item_of_char(ex, args[1])]
    return VUnit()


def m_string_push_str(ex, callee, args, ret_ty, frame):
    sv = TG.unref_all(ex, args[0])
    table = ex.notes.setdefault("strparts", {})
    table[sv.vid] = parts_of(ex, sv) + parts_of(ex, args[1])
    return VUnit()


def m_str_chars(ex, callee, args, ret_ty, frame):
    items = char_items(ex, parts_of(ex, args[0]))
    vals = [VInt(char_value(ex, it), False) if isinstance(it, str) else ex.notes["strchars"][it[1]][it[2]] for it in items]
    return VIter(VSeq("char", len(vals), vals, ex.new_vid()), 0, None, "owned")


def m_string_new(ex, callee, args, ret_ty, frame):
    return mk_string(ex, [])


def m_as_str(ex, callee, args, ret_ty, frame):
    return args[0]


def m_str_eq(ex, callee, args, ret_ty, frame):
    """string comparison where both sides have one known spelling (identifier against a literal)"""
    a, b = parts_of(ex, args[0]), parts_of(ex, args[1])

    def spelled(p):
        if len(p) == 1 and isinstance(p[0], str):
            return p[0]
        if len(p) == 1 and p[0][0] == "ident":
            return p[0][1]
        return None
    sa, sb = spelled(a), spelled(b)
    if sa is None or sb is None:
        return models.NOT_HANDLED
    return VBool(sa == sb)


def dyn_to_sql(ex, builder):
    """<dyn SqlBuilder as SqlBuilder>::to_sql: the impl of the value's concrete type"""
    b = builder
    if isinstance(b, VRef):
        b = TG.unref_all(ex, b)
    ty = base_ty(getattr(b, "ty", "") or "")
    cands = ex.P.trait_impls.get((ty, "SqlBuilder", "to_sql"), [])
    if len(cands) != 1:
        raise engine.Unsupported(f"dyn SqlBuilder::to_sql on {ty or b!r}: {len(cands)} impls")
    return ex.run_function(cands[0], [b], 3)


def m_into_sql_builder(ex, callee, args, ret_ty, frame):
    """<X as IntoSqlBuilder>::into_sql_builder where X is a generic parameter, a Box or an AstNode:
    the impl of the value's own type"""
    v = TG.unref_all(ex, args[0])
    ty = base_ty(getattr(v, "ty", "") or "")
    cands = ex.P.trait_impls.get((ty, "IntoSqlBuilder", "into_sql_builder"), [])
    if len(cands) != 1:
        raise engine.Unsupported(f"IntoSqlBuilder::into_sql_builder on {ty or v!r}: {len(cands)} impls")
    return ex.run_function(cands[0], [VRef(ex.heap(v, "node")) if not isinstance(args[0], VRef) else args[0]], 3)


def m_dyn_to_sql(ex, callee, args, ret_ty, frame):
    return dyn_to_sql(ex, args[0])


SQL_CFG = dict(TG.GRAMMAR_CFG)
def m_box_drop(ex, callee, args, ret_ty, frame):
    return VUnit()


SQL_CFG["models"] = [
    (r"^<Box<.*> as Drop>::drop$", m_box_drop),
    (r"^<dyn (traits::)?SqlBuilder as (traits::)?SqlBuilder>::to_sql$", m_dyn_to_sql),
    (r"^<.+ as (traits::)?IntoSqlBuilder>::into_sql_builder$", m_into_sql_builder),
    (r"Argument(::<.*>)?::new_display::<", m_argument_display),
    (r"^Arguments(::<.*>)?::new::<", m_arguments_new),
    (r"^(alloc::fmt::|std::fmt::)?format$", m_format),
    (r"^<str as ToOwned>::to_owned$", m_to_owned), (r"^<str as ToString>::to_string$", m_to_owned), (r"^<String as Clone>::clone$", m_string_clone),
    (r"^str::(<impl str>::)?replace::<", m_str_replace), (r"::join::<", m_join),
    (r"^(str::(<impl str>::)?|String::)len$", m_str_len), (r"^str::(<impl str>::)?find::<char>$", m_str_find_char),
    (r"^<(str|String) as Index<Range\w*<usize>>>::index$", m_str_slice), (r"^String::push$", m_string_push), (r"^String::push_str$", m_string_push_str),
    (r"^String::with_capacity$", m_string_new), (r"^str::(<impl str>::)?chars$", m_str_chars), (r"^<Chars as Iterator>::next$", models.m_iter_next), (r"^String::as_str$", m_as_str), (r"^String::new$", m_string_new),
    (r"^<(String|str|&str) as PartialEq(<(&?str|String)>)?>::eq$", m_str_eq),
] + list(TG.GRAMMAR_CFG["models"])
SQL_CFG["max_call_depth"] = 120
SQL_CFG["max_steps"] = 3000000


# ----------------------------------------------------------------------------- an independent reader of the emitted SQL
class SqlError(Exception):
    pass


# SQL keywords are case-insensitive: they are read in any case and handled in upper case
KEYWORDS = {"CASE", "WHEN", "THEN", "ELSE", "END", "TRUE", "FALSE", "NULL", "OR", "AND", "IN", "NOT", "ARRAY"}
TYPE_WORDS = {"integer": "int", "bigint": "uint", "double precision": "double", "text": "string", "boolean": "bool", "bytea": "bytes", "timestamp": "timestamp", "interval": "duration", "json": "json", "bool": "bool!"}
SQL_BINOPS = {"+": "Add", "-": "Sub", "*": "Mul", "/": "Div", "%": "Mod", "<": "Lt", "<=": "Le", ">": "Gt", ">=": "Ge", "=": "Eq", "<>": "Ne", "!=": "Ne", "IN": "In", "OR": "Or", "AND": "And"}
CAST_OF = {"int": "int", "uint": "uint", "float": "double", "double": "double", "string": "string", "bool": "bool", "bytes": "bytes", "timestamp": "timestamp", "duration": "duration"}


def sql_lex(parts):
    """part list (literal text and atoms) -> tokens.  Text is lexed as PostgreSQL would (standard
    conforming strings): `--` starts a comment, a quote starts a string literal that ends at the
    next quote that is not doubled; an atom is one token - an identifier, a number, or, inside a
    string literal, a piece of its content."""
    merged = []
    for p in parts:
        if isinstance(p, str) and merged and isinstance(merged[-1], str):
            merged[-1] += p
        else:
            merged.append(p)
    toks = []
    instr = None           # content parts of the string literal being read
    for pi, p in enumerate(merged):
        if not isinstance(p, str):
            if instr is not None:
                instr.append(p)
                continue
            prev = merged[pi - 1] if pi else None
            nxt = merged[pi + 1] if pi + 1 < len(merged) else None
            if (isinstance(prev, str) and prev and (prev[-1].isalnum() or prev[-1] == "_")) or (isinstance(nxt, str) and nxt and (nxt[0].isalnum() or nxt[0] == "_")):
                raise SqlError(f"the atom {p} runs into the neighbouring text")
            if p[0] == "ident":
                toks.append(("ident", p[1]))
            elif p[0] in ("intlit", "int"):
                toks.append(("num", p[1]))
            elif p[0] in ("sym", "ch", "repl"):
                raise SqlError("the content of a string literal is emitted outside quotes")
            else:
                raise SqlError(f"unknown text {p}")
            continue
        i, n = 0, len(p)
        while i < n:
            c = p[i]
            if instr is not None:
                if c == "'":
                    if i + 1 < n and p[i + 1] == "'":
                        if instr and isinstance(instr[-1], str):
                            instr[-1] += "'"
                        else:
                            instr.append("'")
                        i += 2
                        continue
                    toks.append(("str", instr))
                    instr = None
                    i += 1
                    continue
                if instr and isinstance(instr[-1], str):
                    instr[-1] += c
                else:
                    instr.append(c)
                i += 1
                continue
            if c.isspace():
                i += 1
            elif p.startswith("--", i):
                raise SqlError("`--` starts a comment: the rest of the line is not read")
            elif p.startswith("/*", i):
                raise SqlError("`/*` starts a comment")
            elif c == "'":
                instr = []
                i += 1
            elif p.startswith("->>", i):
                toks.append(("op", "->>"))
                i += 3
            elif p[i:i + 2] in ("->", "::", "<=", ">=", "<>", "!="):
                toks.append(("op", p[i:i + 2]))
                i += 2
            elif c in "()[],":
                toks.append((c,))
                i += 1
            elif c in "+-*/%<>=!":
                toks.append(("op", c))
                i += 1
            elif c.isdigit():
                j = i
                while j < n and (p[j].isdigit() or p[j] == "."):
                    j += 1
                toks.append(("num", p[i:j]))
                i = j
            elif c.isalpha() or c == "_":
                j = i
                while j < n and (p[j].isalnum() or p[j] == "_"):
                    j += 1
                w = p[i:j]
                if w.upper() in KEYWORDS:
                    toks.append(("kw", w.upper()))
                elif w.lower() == "json_build_object" or w.lower() in ("double", "precision") or w.lower() in TYPE_WORDS:
                    toks.append(("kw", w.lower()))
                else:
                    toks.append(("ident", w))
                i = j
            else:
                raise SqlError(f"unexpected character {c!r}")
    if instr is not None:
        raise SqlError("a string literal is not closed")
    return toks


class SqlParser:
    """the SQL the translator emits: operands of every operator are parenthesised, so the reader
    never has to apply SQL's own precedence - an operand that is not parenthesised next to a
    second operator is reported instead"""

    def __init__(self, toks):
        self.t, self.p = toks, 0

    def peek(self, k=0):
        return self.t[self.p + k] if self.p + k < len(self.t) else (None,)

    def take(self, *want):
        tok = self.peek()
        if want and tok != tuple(want) and tok[:len(want)] != tuple(want):
            raise SqlError(f"expected {want} at SQL token {self.p}, found {tok}")
        self.p += 1
        return tok

    def expr(self):
        left = self.unary()
        if self.peek()[0] in ("op", "kw") and self.peek()[1] in SQL_BINOPS:
            op = self.take()[1]
            right = self.unary()
            if self.peek()[0] in ("op", "kw") and self.peek()[1] in SQL_BINOPS:
                raise SqlError("two operators without parentheses: the grouping is left to SQL's precedence")
            return TG.N(k="bin", op=SQL_BINOPS[op], l=left, r=right)
        return left

    def unary(self):
        tok = self.peek()
        if (tok[0] == "op" and tok[1] in ("!", "-")) or tok == ("kw", "NOT"):
            n = 0
            while self.peek() == tok:
                self.take()
                n += 1
            return TG.N(k="neg" if tok[1] == "-" else "not", n=n, x=self.postfix())
        return self.postfix()

    def postfix(self):
        """PostgreSQL's precedence among what follows an operand: `::` and a subscript bind tighter
        than `->` / `->>` (an ordinary operator, left associative), so `x->>'f'::text` casts the
        field name and `x->'f'[i]` subscripts it; `'f'(args)` after an arrow is accepted as the
        translator's spelling of a method call"""
        t = self.tight()
        while self.peek() in (("op", "->"), ("op", "->>")):
            self.take()
            s = self.take("str")
            name = TG.N(k="str", content=s[1])
            # what binds to the field name before the arrow applies
            bound = None
            while True:
                tok = self.peek()
                if tok == ("op", "::"):
                    self.take()
                    w = self.take("kw")[1]
                    if w == "double" and self.peek() == ("kw", "precision"):
                        self.take()
                    bound = "a cast binds to the field name, not to the field access (`::` binds tighter than `->`)"
                elif tok == ("[",):
                    self.take()
                    self.expr()
                    self.take("]")
                    bound = "a subscript binds to the field name, not to the field access (`[ ]` binds tighter than `->`)"
                else:
                    break
            if bound:
                raise SqlError(bound)
            t = TG.N(k="access", o=t, name=s[1])
            if self.peek() == ("(",):
                self.take()
                t = TG.N(k="call", f=t, args=self.args(")"))
        return t

    def tight(self):
        t = self.primary()
        while True:
            tok = self.peek()
            if tok == ("op", "::"):
                self.take()
                w = self.take("kw")[1]
                if w == "double" and self.peek() == ("kw", "precision"):
                    self.take()
                    w = "double precision"
                if w not in TYPE_WORDS:
                    raise SqlError(f"cast to {w}")
                if w == "json" and t["k"] == "str" and t.content == ["{}"]:
                    t = TG.N(k="map", inits=[])          # the empty object
                else:
                    t = TG.N(k="cast", x=t, ty=TYPE_WORDS[w])
            elif tok == ("[",):
                self.take()
                e = self.expr()
                self.take("]")
                t = TG.N(k="index", o=t, e=e)
            elif tok == ("(",) and t["k"] in ("ident", "call"):
                self.take()
                t = TG.N(k="call", f=t, args=self.args(")"))
            else:
                return t

    def args(self, end):
        out = []
        while self.peek() != (end,):
            out.append(self.expr())
            if self.peek() == (",",):
                self.take()
            elif self.peek() != (end,):
                raise SqlError(f"expected , or {end}")
        self.take(end)
        return out

    def primary(self):
        tok = self.peek()
        if tok == ("(",):
            self.take()
            e = self.expr()
            self.take(")")
            return TG.N(k="paren", x=e)
        if tok == ("kw", "CASE"):
            self.take()
            self.take("(")
            c = self.expr()
            self.take(")")
            for w in (("op", "::"), ("kw", "bool"), ("kw", "WHEN"), ("kw", "TRUE"), ("kw", "THEN")):
                self.take(*w)
            self.take("(")
            x = self.expr()
            self.take(")")
            self.take("kw", "ELSE")
            self.take("(")
            y = self.expr()
            self.take(")")
            self.take("kw", "END")
            return TG.N(k="cond", c=c, x=x, y=y)
        if tok == ("kw", "ARRAY"):
            self.take()
            self.take("[")
            return TG.N(k="list", items=self.args("]"))
        if tok == ("kw", "json_build_object"):
            self.take()
            self.take("(")
            a = self.args(")")
            if len(a) % 2:
                raise SqlError("json_build_object with an odd number of arguments")
            return TG.N(k="map", inits=[(a[i], a[i + 1]) for i in range(0, len(a), 2)])
        if tok[0] == "kw" and tok[1] in ("NULL", "TRUE", "FALSE"):
            self.take()
            return TG.N(k="const", v=tok[1])
        if tok[0] == "ident":
            self.take()
            return TG.N(k="ident", name=tok[1])
        if tok[0] == "num":
            self.take()
            return TG.N(k="lit", tok=tok[1])
        if tok[0] == "str":
            self.take()
            return TG.N(k="str", content=tok[1])
        raise SqlError(f"unexpected SQL token {tok}")


def sql_parse(parts):
    p = SqlParser(sql_lex(parts))
    t = p.expr()
    if p.p != len(p.t):
        raise SqlError(f"text left after the expression: {p.t[p.p:p.p + 4]}")
    return t


def strip(n):
    while n["k"] == "paren":
        n = n.x
    return n


def expected_sql(n, spell, toks=None, lit=lambda i: i, content=None):
    """the SQL tree the CEL reference tree must come out as (parentheses dropped)"""
    n = strip(n)
    k = n["k"]
    if k == "ident":
        return TG.N(k="ident", name=spell(n.name))
    if k == "lit":
        if toks is not None and toks[n.tok][0] == "StringLit":
            return TG.N(k="str", tok=n.tok, content=content(n.tok) if content else None)
        return TG.N(k="lit", tok=lit(n.tok))
    if k == "bin":
        return TG.N(k="bin", op=n.op, l=expected_sql(n.l, spell, toks, lit, content), r=expected_sql(n.r, spell, toks, lit, content))
    if k in ("not", "neg"):
        return TG.N(k=k, n=n.n, x=expected_sql(n.x, spell, toks, lit, content))
    if k == "cond":
        return TG.N(k="cond", c=expected_sql(n.c, spell, toks, lit, content), x=expected_sql(n.x, spell, toks, lit, content), y=expected_sql(n.y, spell, toks, lit, content))
    if k == "list":
        return TG.N(k="list", items=[expected_sql(a, spell, toks, lit, content) for a in n["items"]])
    if k == "map":
        return TG.N(k="map", inits=[(expected_sql(a, spell, toks, lit, content), expected_sql(b, spell, toks, lit, content)) for a, b in n.inits])
    if k == "member":
        prim = strip(n.prim)
        # a type constructor standing alone is a cast
        if prim["k"] == "ident" and len(n.elems) == 1 and n.elems[0]["k"] == "call" and spell(prim.name) in CAST_OF and len(n.elems[0].args) <= 1:
            a = n.elems[0].args
            return TG.N(k="cast", x=expected_sql(a[0], spell, toks, lit, content) if a else TG.N(k="const", v="NULL"), ty=CAST_OF[spell(prim.name)])
        t = expected_sql(prim, spell, toks, lit, content)
        for e in n.elems:
            if e["k"] == "access":
                t = TG.N(k="access", o=t, name=spell(e.name))
            elif e["k"] == "index":
                t = TG.N(k="index", o=t, e=expected_sql(e.e, spell, toks, lit, content))
            else:
                t = TG.N(k="call", f=t, args=[expected_sql(a, spell, toks, lit, content) for a in e.args])
        return t
    if k == "match":
        raise SqlError("match has no translation")
    raise SqlError(f"reference node {k}")


def same_sql(got, want, out, path="sql"):
    got, want = strip(got), want
    if got["k"] != want["k"]:
        out.append(f"{path}: {got['k']} where the source has {want['k']}")
        return
    k = want["k"]
    if k == "ident" and got.name != want.name:
        out.append(f"{path}: identifier {got.name}, source {want.name}")
    elif k == "lit" and got.tok != want.tok:
        out.append(f"{path}: number of token {got.tok}, source token {want.tok}")
    elif k == "const" and got.v != want.v:
        out.append(f"{path}: {got.v}, source {want.v}")
    elif k == "bin":
        if got.op != want.op:
            out.append(f"{path}: operator {got.op}, source {want.op}")
        same_sql(got.l, want.l, out, path + ".l")
        same_sql(got.r, want.r, out, path + ".r")
    elif k in ("not", "neg"):
        if got.n != want.n:
            out.append(f"{path}: {got.n} prefix operators, source {want.n}")
        same_sql(got.x, want.x, out, path + ".x")
    elif k == "cond":
        for a in "cxy":
            same_sql(got[a], want[a], out, f"{path}.{a}")
    elif k == "list":
        if len(got["items"]) != len(want["items"]):
            out.append(f"{path}: {len(got['items'])} elements, source {len(want['items'])}")
        else:
            for i, (a, b) in enumerate(zip(got["items"], want["items"])):
                same_sql(a, b, out, f"{path}[{i}]")
    elif k == "map":
        if len(got.inits) != len(want.inits):
            out.append(f"{path}: {len(got.inits)} entries, source {len(want.inits)}")
        else:
            for i, ((gk, gv), (wk, wv)) in enumerate(zip(got.inits, want.inits)):
                same_sql(gk, wk, out, f"{path}{{{i}}}.key")
                same_sql(gv, wv, out, f"{path}{{{i}}}.value")
    elif k == "access":
        nm = got.name
        if not (len(nm) == 1 and nm[0] == ("ident", want.name)) and nm != [want.name]:
            out.append(f"{path}: field {nm}, source {want.name}")
        same_sql(got.o, want.o, out, path + ".obj")
    elif k == "index":
        same_sql(got.o, want.o, out, path + ".obj")
        same_sql(got.e, want.e, out, path + ".index")
    elif k == "call":
        same_sql(got.f, want.f, out, path + ".callee")
        if len(got.args) != len(want.args):
            out.append(f"{path}: {len(got.args)} arguments, source {len(want.args)}")
        else:
            for i, (a, b) in enumerate(zip(got.args, want.args)):
                same_sql(a, b, out, f"{path}.arg{i}")
    elif k == "cast":
        if got.ty != want.ty:
            out.append(f"{path}: cast to {got.ty}, source {want.ty}")
        same_sql(got.x, want.x, out, path + ".x")
    elif k == "str":
        # symbolic content: decided separately (quoting); concrete content (native replay): equal
        if want.get("content") is not None and got.content != ([want.content] if want.content else []):
            out.append(f"{path}: string literal content {got.content}, source {want.content!r}")


def string_literals(n, out):
    """every SQL string literal of the tree that stands for a CEL string literal"""
    n = strip(n)
    k = n["k"]
    if k == "str":
        out.append(n)
    for key in ("l", "r", "x", "c", "y", "o", "e", "f"):
        if key in n and isinstance(n[key], dict):
            string_literals(n[key], out)
    for key in ("items", "args"):
        for a in n.get(key, []):
            string_literals(a, out)
    for a, b in n.get("inits", []):
        string_literals(a, out)
        string_literals(b, out)
    return out


# ----------------------------------------------------------------------------- the check
def check_sql(res, V):
    ex = res.ex
    sc = scenario_sql(ex)

    def prefer_quotes():
        out = []
        for i, cs in ex.notes.get("strchars", {}).items():
            out += [c.bv == 39 for c in cs]
        return out
    if res.outcome == "panic":
        V.check(ex, "translation never panics", False, detail=res.msg, scenario=sc)
        return
    if res.outcome != "return":
        V.inconclusive.append(f"{res.outcome}: {res.msg}")
        return
    kind, val = res.ret
    names = TG.ident_names(ex)

    chars = ex.notes.get("strchars", {})

    def resolve(A, p):
        """a content character under the case the solver is asked about: a quote, or some other character"""
        if isinstance(p, tuple) and p[0] == "ch":
            return "'" if A.ask(chars[p[1]][p[2]].bv == 39) else ("sym", p[1], p[2])
        if isinstance(p, tuple) and p[0] == "repl":
            inner = p[1]
            hit = A.ask(chars[inner[1]][inner[2]].bv == p[2]) if inner[0] == "ch" else False
            return p[3] if hit else resolve(A, inner)
        return p

    def ref(A):
        toks = TG.token_facts(ex, A)
        want, used = TG.ref_parse(toks, names)
        flat, content = None, {}
        if kind == "sql" and isinstance(val, VAdt) and isinstance(val.discr, int) and val.discr == 0:
            flat = [resolve(A, p) for p in parts_of(ex, ex.adt_fields(val, 0)[0])]
            for i, cs in chars.items():
                content[i] = merge_text([resolve(A, ("ch", i, j)) for j in range(len(cs))])
        return toks, want, used, flat, content
    for assumed, (toks, want, used, flat, content) in run_reference(ex, ref):
        text = " ".join(k if k not in ("Ident", "IntLit", "StringLit") else {"Ident": "id", "IntLit": "N", "StringLit": "S"}[k] + str(i) for i, (k, _) in enumerate(toks))
        if want is None or kind == "syntax-error":
            V.witness("not an expression")
            continue
        try:
            exp = expected_sql(want, lambda v: names.get(v, v), toks)
        except SqlError as e:
            V.witness("no translation")
            ok = kind == "unsupported" or (kind == "sql" and isinstance(val.discr, int) and val.discr == 1)
            V.check(ex, "a construct without a translation is reported as unsupported", ok, assumed, detail=lambda: f"`{text}`: {e}; got {kind}", scenario=sc)
            continue
        if kind == "unsupported" or not (isinstance(val, VAdt) and isinstance(val.discr, int) and val.discr == 0):
            V.witness("unsupported")
            V.check(ex, "a translatable expression is translated", False, assumed, detail=lambda: f"`{text}`: {kind} {val!r}", scenario=sc)
            continue
        V.witness("sql")
        parts = flat
        shown = "".join(p if isinstance(p, str) else "<" + ":".join(map(str, p[:3])) + ">" for p in parts)
        try:
            got = sql_parse(parts)
        except SqlError as e:
            V.check(ex, "the SQL text reads as one expression", False, assumed, detail=lambda: f"`{text}` -> `{shown}`: {e}", scenario=sc)
            continue
        diffs = []
        same_sql(got, exp, diffs)
        V.check(ex, "the SQL text denotes the operator tree of the source (operators, operand order, grouping, calls, paths, casts)", not diffs, assumed,
                detail=lambda: f"`{text}` -> `{shown}`: {diffs[:3]}", scenario=sc)
        # string literals: one SQL literal each, with exactly the content of the CEL literal - for this
        # case of which content characters are quotes (the solver enumerates the cases)
        if diffs:
            continue
        want_lits = [content[n.tok] for n in literal_order(exp, [])]
        got_lits = [merge_text(l.content) for l in string_literals(got, []) if not is_field_name(l)]
        V.check(ex, "every string literal comes out as one SQL literal with the same content (a quote doubled), so it cannot end its own quoting", got_lits == want_lits, assumed,
                detail=lambda: f"`{text}` -> `{shown}`: SQL literals {got_lits}, source contents {want_lits}", scenario=sc, prefer=prefer_quotes)


def merge_text(items):
    out = []
    for it in items:
        if isinstance(it, str) and out and isinstance(out[-1], str):
            out[-1] += it
        elif it != "":
            out.append(it)
    return out


def literal_order(n, out):
    """the string literals of the expected tree in source order"""
    k = n["k"]
    if k == "str":
        out.append(n)
    for key in ("l", "r", "x", "c", "y", "o", "e", "f"):
        if key in n and isinstance(n[key], dict):
            literal_order(n[key], out)
    for key in ("items", "args"):
        for a in n.get(key, []):
            literal_order(a, out)
    for a, b in n.get("inits", []):
        literal_order(a, out)
        literal_order(b, out)
    return out


def is_field_name(n):
    return bool(n.get("field"))


def scenario_sql(ex):
    inner = TG.scenario_of(ex)

    def build(model):
        sc = inner(model)
        sc["kind"] = "sql"
        chars = ex.notes.get("strchars", {})
        toks = []
        for i, t in enumerate(sc["tokens"]):
            if t[0] == "StringLit":
                cs = chars.get(i, [])
                toks.append(("StringLit", [model.eval(c.bv, model_completion=True).as_long() for c in cs]))
            else:
                toks.append(t)
        sc["tokens"] = toks
        return sc
    return build


def sql_template(*items):
    """t_grammar templates plus `$`: a string literal token whose content is 2 symbolic characters"""
    base_items = [it if it != "$" else "Null" for it in items]
    inner = TG.template(*base_items)

    def build(ex):
        toks = inner(ex)
        T = ex.P.types
        idx = T.variant_index("Token", "StringLit")
        for i, it in enumerate(items):
            if it == "$":
                cs = [ex.fresh("char", f"s{i}c{j}") for j in range(2)]
                for c in cs:
                    ex.assume(z3.And(z3.UGE(c.bv, 32), z3.ULT(c.bv, 127)))       # printable ASCII: one byte per character
                ex.notes.setdefault("strchars", {})[i] = cs
                tok = VAdt("Token", idx, {idx: [VOpaque("String", ex.new_vid(), f"strlit:{i}")]}, ex.new_vid())
                toks[i].fields[0] = tok
        return toks
    return build


def tgt(name, items, what, tier="quick"):
    return dict(name=name, props=["C20"], func=lambda P: Entry(P), cfg=SQL_CFG, make_args=TP.make_args_for(sql_template(*items)), check=check_sql, max_paths=4000,
                what=what, bounds={"tokens": str(len(items))}, tier=tier, needs="to_sql")


OPS6 = ("OrOr", "AndAnd", "EqualEqual", "In", "Minus", "Mod")
TARGETS = [
    tgt("sql_binop", ["@a", tuple(TP.BINARY_TOKENS), "@b"], "`a op b` for the 14 binary operators, operands variables or integer literals"),
    tgt("sql_chain", ["a", OPS6, "b", OPS6, "c"], "`a op1 b op2 c`: grouping of the source survives (36 operator pairs)"),
    tgt("sql_paren", ["a", OPS6, "LParen", "b", OPS6, "c", "RParen"], "`a op1 (b op2 c)`"),
    tgt("sql_unary", ["Not", ("Not", "Minus"), "a", ("Add", "AndAnd"), ("Not", "Minus"), "b"], "`!!a && !b`, `!!a + -b`, `!-a` (rejected): prefix operators"),
    tgt("sql_neg", ["Minus", "a", ("Minus", "Multiply"), "Minus", "b"], "`-a - -b`, `-a * -b`"),
    tgt("sql_neg2", ["Minus", "Minus", "a"], "`--a`: a double negation must not come out as the SQL comment marker"),
    tgt("sql_cond", ["a", ("OrOr", "LessThan"), "b", "Question", "c", "Colon", "d", "Question", "e", "Colon", "f"], "`a || b ? c : d ? e : f`"),
    tgt("sql_member", ["a", "Dot", "b", "Dot", "c", ("Add", "Dot"), "d", "Dot", "e"], "`a.b.c + d.e`, `a.b.c.d.e`: field paths"),
    tgt("sql_index", ["a", "Dot", "b", "LBracket", "c", ("Add", "OrOr"), "d", "RBracket", ("Dot", "LBracket"), "e", ("RBracket", "Add"), "f"] if False else ["a", "Dot", "b", "LBracket", "c", ("Add", "OrOr"), "d", "RBracket", "Dot", "e"], "`a.b[c op d].e`: index paths"),
    tgt("sql_call", ["f", "LParen", "a", "Comma", "b", ("Add", "OrOr"), "c", "RParen"], "`f(a, b op c)`: a call standing alone, arguments in source order"),
    tgt("sql_call0", ["f", "LParen", "RParen", ("Add", "Dot"), "g"], "`f() + g`, `f().g`"),
    tgt("sql_method", ["a", "Dot", "f", "LParen", "b", "Comma", "c", "RParen", ("Dot", "Add"), "d"], "`a.f(b, c).d`, `a.f(b, c) + d`: a call inside a member chain"),
    tgt("sql_method2", ["a", "Dot", "f", "LParen", "b", "RParen", "Dot", "g", "LParen", "c", "Comma", "d", "RParen"], "`a.f(b).g(c, d)`"),
    tgt("sql_cast", ["int", "LParen", "a", "Add", "b", "RParen", "Multiply", "string", "LParen", "c", "RParen"], "`int(a + b) * string(c)`: a type constructor standing alone becomes a cast"),
    tgt("sql_cast_path", ["string", "LParen", "a", "Dot", "b", "Dot", "c", "RParen", "EqualEqual", "$"],
        "`string(a.b.c) == '..'`: the cast of a field path applies to the path, not to its last field name"),
    tgt("sql_cast_index", ["int", "LParen", "a", "LBracket", "b", "RBracket", "RParen", "Add", "uint", "LParen", "f", "LParen", "c", "RParen", "Dot", "d", "RParen"], "`int(a[b]) + uint(f(c).d)`"),
    tgt("sql_list_unsupported", ["LBracket", "a", "Comma", {"fstring": [("lit", "x")]}, "Comma", "b", "RBracket"], "`[a, f'x', b]`: an element without a translation makes the whole list unsupported, it is not dropped"),
    tgt("sql_cast0", ["double", "LParen", "RParen"], "`double()`: a cast of NULL"),
    tgt("sql_list", ["LBracket", "a", "Comma", "b", ("Add", "OrOr"), "@c", ("Comma", "RBracket"), "RBracket"], "`[a, b op c]`"),
    tgt("sql_map", ["LBrace", "$", "Colon", "b", "Comma", "$", "Colon", "d", "Add", "e", "RBrace"], "`{'k': b, 'l': d + e}`"),
    tgt("sql_string", ["a", ("EqualEqual", "Add"), "$"], "`a == '..'`: a string literal with symbolic content"),
    tgt("sql_string2", ["f", "LParen", "$", "Comma", "$", "RParen"], "`f('..', '..')`"),
    tgt("sql_match", ["Match", "a", "LBrace", "Case", "b", "Colon", "c", "RBrace"], "match has no translation: reported as unsupported"),
]
