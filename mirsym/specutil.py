"""Helpers shared by the target specifications: loading the program, the reference-semantics
runner (`Asker`) and the obligation bookkeeping."""
import glob
import os
import re
import time
import z3

import engine
import mirparse
from engine import VAdt, VBool, VInt, VOpaque, VRef, VSeq, VStruct, VTuple, VStr, base_ty


_PROGRAM = {}


def load_program(repo, mir_path, features=("type_prop", "neg_index"), extra_mir=None):
    """`extra_mir`: the dump of extensions/to_sql, loaded into the same program (its functions call
    into rscel's; types of both crates are read from source)"""
    key = (repo, mir_path, extra_mir)
    if key in _PROGRAM:
        return _PROGRAM[key]
    T = engine.TypeTable()
    srcs = sorted(glob.glob(os.path.join(repo, "rscel/src/**/*.rs"), recursive=True))
    if extra_mir:
        srcs += sorted(glob.glob(os.path.join(repo, "extensions/to_sql/src/**/*.rs"), recursive=True))
    for f in srcs:
        if "/tests/" in f:
            continue
        T.load_source(open(f).read(), features=features)
    funcs = mirparse.parse_dump(open(mir_path).read())
    if extra_mir:
        funcs += mirparse.parse_dump(open(extra_mir).read())
    P = engine.Program(funcs, repo, T)
    _PROGRAM[key] = P
    return P


def find_func(P, short, self_ty=None, contains=None):
    cands = []
    if self_ty:
        cands = P.inherent.get((self_ty, short), [])
    else:
        cands = P.free.get(short, [])
    if contains:
        cands = [f for f in cands if contains in f.name]
    if len(cands) != 1:
        raise KeyError(f"function {self_ty or ''}::{short}: {len(cands)} candidates")
    return cands[0]


def vid_of(ex, v):
    """identity of the logical value behind v (following references)"""
    seen = 0
    while isinstance(v, VRef) and seen < 8:
        v = ex.read(v.root, v.path)
        seen += 1
    return getattr(v, "vid", None)


def is_variant(ex, v, name):
    """z3 Bool: enum value v is variant `name`"""
    idx = ex.variant_index(v, name)
    if isinstance(v.discr, int):
        return z3.BoolVal(v.discr == idx)
    return v.discr == idx


class Asker:
    """Runs a reference semantics written in Python over the symbolic facts of one path.
    `ask(cond)` returns a truth value that is feasible under the path condition plus what was
    assumed so far, and schedules the other one when both are feasible; `run_all` enumerates
    every feasible combination.  Each combination yields (assumptions, expected)."""

    def __init__(self, ex, decisions):
        self.ex = ex
        self.decisions = list(decisions)
        self.pos = 0
        self.assumed = []
        self.alternatives = []
        self.queries = 0

    def ask(self, cond):
        if isinstance(cond, bool):
            return cond
        s = z3.simplify(cond)
        if z3.is_true(s):
            return True
        if z3.is_false(s):
            return False
        ex = self.ex
        t = time.time()
        can_t = ex.solver.check(*self.assumed, s) == z3.sat
        can_f = ex.solver.check(*self.assumed, z3.Not(s)) == z3.sat
        ex.solver_calls += 2
        ex.solver_time += time.time() - t
        self.queries += 2
        if can_t and can_f:
            if self.pos < len(self.decisions):
                val = self.decisions[self.pos]
            else:
                val = True
                self.alternatives.append(self.decisions[:self.pos] + [False])
                self.decisions.append(True)
            self.pos += 1
        elif can_t:
            val = True
        elif can_f:
            val = False
        else:
            raise engine.PathEnd("infeasible", "reference: contradictory assumptions")
        self.assumed.append(s if val else z3.Not(s))
        return val


def run_reference(ex, ref_fn):
    """-> [(assumptions, expected)] for every feasible combination of the facts ref_fn asks about"""
    out = []
    work = [[]]
    while work:
        dec = work.pop()
        a = Asker(ex, dec)
        try:
            exp = ref_fn(a)
        except engine.PathEnd:
            continue
        out.append((a.assumed, exp))
        work.extend(a.alternatives)
        if len(out) > 5000:
            raise engine.Unsupported("reference enumeration exploded")
    return out


class Verdicts:
    """Collects obligations of one target."""

    def __init__(self, target):
        self.target = target
        self.obligations = 0
        self.discharged = 0
        self.failures = []  # dicts
        self.inconclusive = []
        self.paths = 0
        self.witnesses = {}
        self.solver_time = 0.0
        self.solver_calls = 0

    def witness(self, name):
        self.witnesses[name] = self.witnesses.get(name, 0) + 1

    def check(self, ex, label, formula, assumptions=(), detail=None, scenario=None, prefer=None):
        """obligation: path condition /\\ assumptions  =>  formula   (decided by z3)"""
        self.obligations += 1
        f = formula if not isinstance(formula, bool) else z3.BoolVal(formula)
        t = time.time()
        r = ex.solver.check(*assumptions, z3.Not(f))
        self.solver_calls += 1
        self.solver_time += time.time() - t
        if r == z3.unsat:
            self.discharged += 1
            return True
        if r == z3.unknown:
            self.inconclusive.append(f"{label}: solver unknown")
            return False
        model = ex.solver.model()
        prefs = None
        if prefer is not None:
            # among the counterexamples, prefer one that has a concrete native counterpart
            try:
                prefs = prefer()
                if prefs and ex.solver.check(*assumptions, z3.Not(f), *prefs) == z3.sat:
                    model = ex.solver.model()
            except Exception:
                pass
        sc = None
        if scenario is not None:
            try:
                sc = scenario(model)
            except Exception as e:  # a scenario that cannot be extracted only disables native replay
                sc = {"unavailable": f"{type(e).__name__}: {e}"}
        self.failures.append({
            "label": label,
            "scenario": sc,
            "detail": detail() if callable(detail) else detail,
            "choices": list(ex.choices),
            "trace": [repr(e) for e in ex.trace][:40],
            "model": {str(d): str(model[d]) for d in model.decls()[:60]},
        })
        return False
