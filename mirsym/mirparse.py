"""Parser for rustc's `-Zunpretty=mir` text dump (the subset that rscel's code produces).

The dump is regenerated from /repo's working tree on every run (see mirdump.py); nothing in
this file knows anything about rscel.
"""
import re


class Func:
    def __init__(self, header, name, params, ret_ty):
        self.header = header
        self.name = name  # raw name as printed after `fn `
        self.params = params  # [(local_idx, type)]
        self.ret_ty = ret_ty
        self.locals = {}  # idx -> type string
        self.blocks = {}  # idx -> Block
        self.impl_at = None  # (file, line) for `<impl at file:line:col: ...>` names
        self.self_ty = None  # filled by the index (from the source line of the impl)
        self.trait = None
        self.short = name.split("::")[-1]
        self.nlines = 0
        self.promoted = False
        self.const_item = False


class Block:
    __slots__ = ("idx", "stmts", "term", "cleanup")

    def __init__(self, idx, cleanup):
        self.idx = idx
        self.stmts = []
        self.term = None
        self.cleanup = cleanup


HEADER_RE = re.compile(r"^fn (.+?)\((.*)\) -> (.+) \{$")
HEADER_NOARGS_RE = re.compile(r"^fn (.+?)\(\) -> (.+) \{$")
LET_RE = re.compile(r"^\s+let (?:mut )?_(\d+): (.+);$")
BB_RE = re.compile(r"^\s+bb(\d+)( \(cleanup\))?: \{$")
IMPL_AT_RE = re.compile(r"<impl at ([^:>]+):(\d+):\d+: \d+:\d+>")


def split_top(s, sep=","):
    """Split on `sep` at nesting depth 0 of () [] <> {} (ignoring -> arrows and string literals)."""
    out, depth, cur, i, n = [], 0, [], 0, len(s)
    instr = None
    while i < n:
        c = s[i]
        if instr:
            cur.append(c)
            if c == "\\" and i + 1 < n:
                cur.append(s[i + 1])
                i += 2
                continue
            if c == instr:
                instr = None
            i += 1
            continue
        if c == '"':
            instr = c
            cur.append(c)
        elif c == "'" and i + 2 < n and (s[i + 2] == "'" or (s[i + 1] == "\\" and i + 3 < n and s[i + 3] == "'")):
            # char literal 'x' / '\n' (lifetimes never have a closing quote two characters on)
            k = i + 3 if s[i + 2] == "'" else i + 4
            cur.append(s[i:k])
            i = k
            continue
        elif c in "([{<":
            depth += 1
            cur.append(c)
        elif c in ")]}":
            depth -= 1
            cur.append(c)
        elif c == ">":
            if i > 0 and s[i - 1] in "-=":  # `->` / `=>`
                cur.append(c)
            else:
                depth -= 1
                cur.append(c)
        elif c == sep and depth == 0:
            out.append("".join(cur).strip())
            cur = []
        else:
            cur.append(c)
        i += 1
    last = "".join(cur).strip()
    if last or out:
        out.append(last)
    return out


def parse_dump(text):
    funcs = []
    lines = text.split("\n")
    i, n = 0, len(lines)
    while i < n:
        line = lines[i]
        cm = re.match(r"^const (.+::promoted\[\d+\]): (.+) = \{$", line) or re.match(r"^const ([A-Z][A-Z0-9_]*): (.+) = \{$", line)
        if (line.startswith("fn ") and line.endswith("{")) or cm:
            m = HEADER_RE.match(line) if not cm else None
            if not m and not cm:
                i += 1
                continue
            if cm:
                name, params_s, ret = cm.group(1), "", cm.group(2)
            else:
                name, params_s, ret = m.group(1), m.group(2), m.group(3)
            params = []
            if params_s.strip():
                for p in split_top(params_s):
                    pm = re.match(r"^_(\d+): (.+)$", p)
                    if pm:
                        params.append((int(pm.group(1)), pm.group(2)))
            f = Func(line, name, params, ret)
            im = IMPL_AT_RE.search(name)
            if im:
                f.impl_at = (im.group(1), int(im.group(2)))
            if "::promoted[" in name:
                f.promoted = True
            elif cm:
                f.const_item = True
            for (k, t) in params:
                f.locals[k] = t
            start = i
            i += 1
            cur = None
            while i < n and lines[i] != "}":
                l = lines[i]
                lm = LET_RE.match(l)
                if lm and cur is None:
                    f.locals[int(lm.group(1))] = lm.group(2)
                    i += 1
                    continue
                bm = BB_RE.match(l)
                if bm:
                    cur = Block(int(bm.group(1)), bool(bm.group(2)))
                    f.blocks[cur.idx] = cur
                    i += 1
                    continue
                if cur is not None:
                    s = l.strip()
                    if s == "}":
                        cur = None
                    elif s:
                        # statements may span several lines only for string constants with embedded
                        # newlines, which rustc escapes; so one line = one statement
                        cur.stmts.append(s)
                i += 1
            for b in f.blocks.values():
                if b.stmts:
                    b.term = b.stmts.pop()
            f.locals.setdefault(0, ret)
            f.nlines = i - start
            funcs.append(f)
        i += 1
    return funcs


# --------------------------------------------------------------------------- places / operands
class Place:
    __slots__ = ("local", "proj")

    def __init__(self, local, proj):
        self.local = local
        self.proj = proj  # tuple of steps: ('deref',), ('field', i, ty), ('downcast', name), ('index', local), ('cindex', i, fromend)

    def __repr__(self):
        return f"Place(_{self.local}, {self.proj})"


def _match_paren(s, i):
    """index of the ')' matching the '(' at s[i]; '<' '>' are not brackets here except inside types,
    where parens are still balanced."""
    depth = 0
    n = len(s)
    j = i
    instr = False
    while j < n:
        c = s[j]
        if instr:
            if c == "\\":
                j += 2
                continue
            if c == '"':
                instr = False
        elif c == '"':
            instr = True
        elif c == "(":
            depth += 1
        elif c == ")":
            depth -= 1
            if depth == 0:
                return j
        j += 1
    raise ValueError("unbalanced: " + s)


def parse_place_prefix(s):
    """Parse a place at the start of s; return (Place, rest)."""
    s = s.lstrip()
    if s.startswith("_"):
        m = re.match(r"_(\d+)", s)
        pl = Place(int(m.group(1)), ())
        rest = s[m.end():]
    elif s.startswith("("):
        j = _match_paren(s, 0)
        inner = s[1:j]
        rest = s[j + 1:]
        if inner.startswith("*"):
            base, r2 = parse_place_prefix(inner[1:])
            assert r2.strip() == "", inner
            pl = Place(base.local, base.proj + (("deref",),))
        else:
            base, r2 = parse_place_prefix(inner)
            r2 = r2.strip()
            if r2.startswith("as "):
                pl = Place(base.local, base.proj + (("downcast", r2[3:].strip()),))
            elif r2.startswith("."):
                m = re.match(r"\.(\d+): (.*)$", r2, re.S)
                assert m, r2
                pl = Place(base.local, base.proj + (("field", int(m.group(1)), m.group(2)),))
            else:
                raise ValueError("place? " + s)
    else:
        raise ValueError("place? " + s)
    # suffixes
    while rest.startswith("["):
        j = rest.index("]")
        ix = rest[1:j]
        rest = rest[j + 1:]
        m = re.match(r"^_(\d+)$", ix)
        if m:
            pl = Place(pl.local, pl.proj + (("index", int(m.group(1))),))
            continue
        m = re.match(r"^(-?)(\d+) of (\d+)$", ix)
        if m:
            pl = Place(pl.local, pl.proj + (("cindex", int(m.group(2)), m.group(1) == "-"),))
            continue
        raise ValueError("index projection? " + ix)
    return pl, rest


def parse_place(s):
    pl, rest = parse_place_prefix(s)
    if rest.strip():
        raise ValueError(f"trailing text after place: {s!r}")
    return pl


class Operand:
    __slots__ = ("kind", "place", "const")

    def __init__(self, kind, place=None, const=None):
        self.kind = kind  # 'copy' | 'move' | 'const'
        self.place = place
        self.const = const

    def __repr__(self):
        return f"Op({self.kind}, {self.place or self.const})"


def parse_operand(s):
    s = s.strip()
    if s.startswith("no_retag "):
        s = s[len("no_retag "):]
    if s.startswith("copy "):
        return Operand("copy", place=parse_place(s[5:]))
    if s.startswith("move "):
        return Operand("move", place=parse_place(s[5:]))
    if s.startswith("const "):
        return Operand("const", const=s[6:].strip())
    if re.match(r"^[A-Za-z_<]", s) and "(" not in s.split("::")[-1]:
        # a bare function item / tuple-struct constructor passed as a value
        return Operand("const", const="fn:" + s)
    raise ValueError("operand? " + s)


BINOPS = {
    "Add", "Sub", "Mul", "Div", "Rem", "BitXor", "BitAnd", "BitOr", "Shl", "Shr", "Eq", "Lt", "Le", "Ne", "Ge", "Gt", "Cmp", "Offset",
    "AddWithOverflow", "SubWithOverflow", "MulWithOverflow", "AddUnchecked", "SubUnchecked", "MulUnchecked", "ShlUnchecked", "ShrUnchecked",
}
UNOPS = {"Not", "Neg", "PtrMetadata"}


class Rvalue:
    def __init__(self, kind, **kw):
        self.kind = kind
        self.__dict__.update(kw)

    def __repr__(self):
        return f"Rv({self.kind}, { {k: v for k, v in self.__dict__.items() if k != 'kind'} })"


def parse_rvalue(s):
    s = s.strip()
    if s.startswith(("copy ", "move ", "const ", "no_retag ")):
        # maybe a cast: `copy _x as T (Kind)`
        m = re.match(r"^(.*) as (.+) \((\w+(?:\([^)]*\))?(?:, \w+)?)\)$", s)
        if m and not s.startswith("const \""):
            try:
                op = parse_operand(m.group(1))
                return Rvalue("cast", op=op, ty=m.group(2), cast=m.group(3))
            except ValueError:
                pass
        return Rvalue("use", op=parse_operand(s))
    if s.startswith("&"):
        m = re.match(r"^&(raw const |raw mut |mut |fake shallow |fake deep |)(.*)$", s)
        return Rvalue("ref", mut="mut" in m.group(1), place=parse_place(m.group(2)))
    m = re.match(r"^(\w+)\((.*)\)$", s, re.S)
    if m and m.group(1) in BINOPS:
        a, b = split_top(m.group(2))
        return Rvalue("binop", op=m.group(1), a=parse_operand(a), b=parse_operand(b))
    if m and m.group(1) in UNOPS:
        return Rvalue("unop", op=m.group(1), a=parse_operand(m.group(2)))
    if m and m.group(1) == "discriminant":
        return Rvalue("discriminant", place=parse_place(m.group(2)))
    if m and m.group(1) == "Len":
        return Rvalue("len", place=parse_place(m.group(2)))
    if s.startswith("[") and s.endswith("]"):
        inner = s[1:-1].strip()
        rm = re.match(r"^(.*); (\d+)$", inner)
        if rm:
            return Rvalue("repeat", op=parse_operand(rm.group(1)), n=int(rm.group(2)))
        return Rvalue("array", ops=[parse_operand(x) for x in split_top(inner)] if inner else [])
    if s.startswith("(") and s.endswith(")") and _match_paren(s, 0) == len(s) - 1:
        inner = s[1:-1].strip()
        ops = [x for x in split_top(inner) if x]
        return Rvalue("tuple", ops=[parse_operand(x) for x in ops])
    if s.startswith("{closure@") or s.startswith("{coroutine@"):
        return Rvalue("closure", text=s)
    # ADT aggregates: Path(ops) | Path { f: op, .. } | Path
    m = re.match(r"^(.*?) \{ (.*) \}$", s, re.S)
    if m and "::" in m.group(1) or (m and re.match(r"^[A-Za-z_][\w:<>', ]*$", m.group(1))):
        fields = []
        for part in split_top(m.group(2)):
            fm = re.match(r"^(\w+): (.*)$", part, re.S)
            fields.append((fm.group(1), parse_operand(fm.group(2))))
        return Rvalue("adt", path=m.group(1), fields=fields, named=True)
    if s.endswith(")"):
        # find the '(' that matches the final ')'
        depth = 0
        k = len(s) - 1
        instr = False
        while k >= 0:
            c = s[k]
            if c == '"' and (k == 0 or s[k - 1] != "\\"):
                instr = not instr
            elif not instr:
                if c == ")":
                    depth += 1
                elif c == "(":
                    depth -= 1
                    if depth == 0:
                        break
            k -= 1
        path = s[:k]
        inner = s[k + 1:-1]
        return Rvalue("adt", path=path, fields=[(None, parse_operand(x)) for x in split_top(inner)] if inner.strip() else [], named=False)
    if re.match(r"^[a-z_]\w*(::\w+)*$", s) and re.match(r"^[a-z_]", s.split("::")[-1]):
        return Rvalue("fnitem", path=s)      # the zero-sized value of a function item
    if re.match(r"^[A-Za-z_<]", s) and "::" in s and re.match(r"^\w+$", s.split("::")[-1]):
        return Rvalue("adt", path=s, fields=[], named=False)
    if re.match(r"^[A-Z]\w*$", s):
        return Rvalue("adt", path=s, fields=[], named=False)      # a unit struct value (`Utc`)
    raise ValueError("rvalue? " + s)


class Stmt:
    def __init__(self, kind, **kw):
        self.kind = kind
        self.__dict__.update(kw)


def _prep(s):
    # the char literal '"' would be taken for the start of a string literal
    return s.replace("'\"'", "'\\x22'")


def parse_stmt(s):
    s = _prep(s.rstrip(";"))
    if s.startswith(("StorageLive", "StorageDead", "nop", "FakeRead", "AscribeUserType", "PlaceMention", "Retag", "Coverage", "ConstEvalCounter", "BackwardIncompatibleDropHint")):
        return Stmt("nop")
    m = re.match(r"^discriminant\((.*)\) = (\d+)$", s)
    if m:
        return Stmt("setdiscr", place=parse_place(m.group(1)), idx=int(m.group(2)))
    m = re.match(r"^Deinit\((.*)\)$", s)
    if m:
        return Stmt("nop")
    if s.startswith("assume("):
        return Stmt("nop")
    # assignment: place = rvalue ; the place may contain ' = ' never; split on first ' = '
    pl, rest = parse_place_prefix(s)
    rest = rest.lstrip()
    assert rest.startswith("= "), s
    return Stmt("assign", place=pl, rv=parse_rvalue(rest[2:]))


class Term:
    def __init__(self, kind, **kw):
        self.kind = kind
        self.__dict__.update(kw)


def _targets(s):
    """`[return: bb5, unwind: bb18]` / `[success: bb1, unwind continue]` / `unwind continue` -> dict"""
    out = {}
    for m in re.finditer(r"(return|success|unwind|otherwise|drop): (bb\d+|continue|unreachable|terminate\(\w+\))", s):
        v = m.group(2)
        out[m.group(1)] = int(v[2:]) if v.startswith("bb") else v
    return out


def parse_term(s):
    s = _prep(s.rstrip(";"))
    if s == "return":
        return Term("return")
    if s == "unreachable":
        return Term("unreachable")
    if s in ("resume", "abort") or s.startswith("terminate") or s.startswith("unwind_terminate"):
        return Term("resume")
    m = re.match(r"^goto -> bb(\d+)$", s)
    if m:
        return Term("goto", target=int(m.group(1)))
    m = re.match(r"^switchInt\((.*)\) -> \[(.*)\]$", s)
    if m:
        op = parse_operand(m.group(1))
        arms, otherwise = [], None
        for part in m.group(2).split(", "):
            k, v = part.split(": ")
            if k == "otherwise":
                otherwise = int(v[2:])
            else:
                arms.append((int(k), int(v[2:])))
        return Term("switch", op=op, arms=arms, otherwise=otherwise)
    m = re.match(r"^drop\((.*)\) -> (.*)$", s)
    if m:
        t = _targets(m.group(2))
        return Term("drop", place=parse_place(m.group(1)), target=t.get("return"))
    m = re.match(r"^assert\((!?)(.*?), \"(.*)\) -> (\[.*\]|.*)$", s, re.S)
    if m:
        t = _targets(m.group(4))
        return Term("assert", negate=bool(m.group(1)), op=parse_operand(m.group(2)), msg=m.group(3), target=t.get("success"))
    m = re.match(r"^falseEdge -> \[real: bb(\d+), imaginary: bb\d+\]$", s)
    if m:
        return Term("goto", target=int(m.group(1)))
    m = re.match(r"^falseUnwind -> \[real: bb(\d+).*$", s)
    if m:
        return Term("goto", target=int(m.group(1)))
    # call: `_x = callee(args) -> [return: bbN, unwind: ...]` | `... -> unwind continue` (diverging)
    m = re.match(r"^(.*?) = (.*) -> (\[.*\]|unwind .*|bb\d+)$", s, re.S)
    if m:
        dest = parse_place(m.group(1))
        call = m.group(2)
        j = len(call) - 1
        assert call[j] == ")", s
        depth = 0
        instr = False
        k = j
        while k >= 0:
            c = call[k]
            if c == '"' and (k == 0 or call[k - 1] != "\\"):
                instr = not instr
            elif not instr:
                if c == ")":
                    depth += 1
                elif c == "(":
                    depth -= 1
                    if depth == 0:
                        break
            k -= 1
        callee = call[:k]
        args_s = call[k + 1:j]
        args = [parse_operand(a) for a in split_top(args_s)] if args_s.strip() else []
        t = _targets(m.group(3))
        if re.match(r"^bb\d+$", m.group(3)):
            t = {"unwind": int(m.group(3)[2:])}
        return Term("call", dest=dest, callee=callee, args=args, target=t.get("return"), unwind=t.get("unwind"))
    raise ValueError("terminator? " + s)
