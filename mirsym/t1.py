import sys, glob, time
sys.path.insert(0,'/verif/mirsym')
import engine, mirparse
from engine import *
T=TypeTable()
for f in glob.glob('/repo/rscel/src/**/*.rs', recursive=True):
    if '/tests/' in f: continue
    T.load_source(open(f).read(), features=('type_prop','neg_index'))
print('CelError', [v[0] for v in T.enums['CelError']])
print('CelValue', [v for v in T.enums['CelValue']])
print('Interpreter', T.structs['Interpreter'], T.structs['CelByteCode'], T.aliases)
funcs=mirparse.parse_dump(open('/tmp/mir/rscel.mir').read())
P=Program(funcs,'/repo',T)
print(len(P.inherent), len(P.trait_impls), len(P.free))
name=sys.argv[1]
f=P.free[name][0]
cfg={'inline':[r'CelValue::(true_|false_|from_err|from_null)$', r'CelError::'], 'seq_bound':3}
def mk(ex):
    return [ex.fresh(t, tag=f'arg{i}') for i,t in f.params]
def on(res):
    ex=res.ex
    print('---', res.outcome, res.msg, 'ret=', res.ret)
    print('   choices', ex.choices)
    for e in ex.trace: print('   ', e)
st,used=explore(P,cfg,f,mk,on)
print(st); print(used)
