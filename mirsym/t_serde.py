"""Target: variant tags of the serde derives agree between Serialize and Deserialize (C19).

For each serialisable enum T of a compiled program (CelValue, CelError, ByteCode, JmpWhen) the
derive-generated MIR is executed:
  * `<T as Serialize>::serialize(&v, S)` for a symbolic v: which `serialize_*_variant(name,
    index, variant)` call each variant makes (the Serializer is uninterpreted), or that it
    refuses the variant;
  * the field visitor's `visit_u64(i)` for a symbolic i (index-tagged formats: bincode) and
    `visit_str(s)` for a symbolic s (name-tagged formats: JSON): which `__fieldN` they select.
Specification: a variant that serialises with (index i, name s) must be selected again by i
and by s, i.e. visit_u64(i) = visit_str(s) = `__field<N>` with N the variant's position in the
declaration (serde_derive names the fields after the declaration index; trusted)."""
import re
import z3

import engine
import models
from engine import VAdt, VBool, VInt, VOpaque, VRef, VSeq, VStruct, VTuple, VUnit, VStr, VFn, Event, base_ty
from specutil import is_variant

ENUMS = ["CelValue", "CelError", "ByteCode", "JmpWhen"]


def m_ser_variant(ex, callee, args, ret_ty, frame):
    kind = re.search(r"serialize_(\w+?)_variant", callee).group(1)
    name, idx, var = args[1], args[2], args[3]
    ex.trace.append(Event("ser_variant", [], None, {"kind": kind, "enum": name.s if isinstance(name, VStr) else None, "index": idx.concrete() if isinstance(idx, VInt) else None,
                                                     "name": var.s if isinstance(var, VStr) else None}))
    ex.used["havocked"].add("Serializer::serialize_*_variant (uninterpreted, logged)")
    return VOpaque("SerResult", ex.new_vid(), "ok")


def m_ser_custom(ex, callee, args, ret_ty, frame):
    ex.trace.append(Event("ser_refused", [], None, {"msg": args[0].s if isinstance(args[0], VStr) else None}))
    return VOpaque("SerError", ex.new_vid(), "custom")


def m_str_eq(ex, callee, args, ret_ty, frame):
    a, b = args
    if isinstance(b, VStr) and not isinstance(a, VStr):
        key = ("streq", b.s)
        if key not in ex.lazy:
            ex.lazy[key] = z3.Bool("tag_is_" + b.s)
            # a string equals at most one of the constants it is compared with
            for (k2, v2) in list(ex.lazy.items()):
                if isinstance(k2, tuple) and k2[0] == "streq" and k2 != key:
                    ex.assume(z3.Not(z3.And(v2, ex.lazy[key])))
        return VBool(ex.lazy[key])
    if isinstance(a, VStr) and isinstance(b, VStr):
        return VBool(a.s == b.s)
    return models.NOT_HANDLED


def m_de_error(ex, callee, args, ret_ty, frame):
    return VOpaque("DeError", ex.new_vid(), callee.split("::")[-1])


CFG = dict(
    inline=[],
    opaque_types=("String", "HashMap", "CelBytes", "DateTime", "Duration", "Arc", "CelByteCode", "SyntaxError", "Vec"),
    models=[(r"Serializer>::serialize_(unit|newtype|tuple|struct)_variant", m_ser_variant), (r"ser::Error>::custom", m_ser_custom),
            (r"SerializeStructVariant>::(serialize_field|end)|SerializeTupleVariant>::(serialize_field|end)", lambda ex, c, a, r, f: VOpaque("SerResult", ex.new_vid(), "field")),
            (r"^<str as PartialEq>::eq$", m_str_eq), (r"de::Error>::(invalid_value|unknown_variant|unknown_field)", m_de_error),
            (r"^Unexpected(::)?(<.*>)?::", lambda ex, c, a, r, f: VOpaque("Unexpected", ex.new_vid()))],
    seq_bound=1, loop_bound=4,
)


def find(P, enum, trait, short):
    cands = [f for f in P.trait_impls.get((enum, trait, short), []) if "promoted" not in f.name]
    if trait == "Serialize":
        cands = [f for f in cands if f.name.count("<impl at") == 1]
    return cands[0] if cands else None


def field_of(v):
    """`__field7` from the constant the visitor returns"""
    if isinstance(v, VAdt) and isinstance(v.discr, int) and v.base() == "Result" and v.discr == 0:
        x = v.fields[0][0]
        t = x.name if isinstance(x, VFn) else str(getattr(x, "ty", ""))
        m = re.search(r"__field(\d+)$", t)
        return int(m.group(1)) if m else None
    return None


def make_target(enum):
    state = {}

    def run_all(P, V):
        """three explorations, then the composition (all inside one target run)"""
        import specutil
        nvar = len(P.types.enums[enum])
        ser = find(P, enum, "Serialize", "serialize")
        vu = find(P, enum, "Deserialize", "visit_u64")
        vs = find(P, enum, "Deserialize", "visit_str")
        if not (ser and vu and vs):
            V.inconclusive.append(f"derive functions of {enum} not found in the dump")
            return {}
        tags, by_index, by_name = {}, {}, {}
        st = {"paths": 0, "solver_calls": 0, "solver_time": 0.0, "returned": 0, "unsupported": 0, "bound": 0, "unsupported_msgs": []}
        used = {"inlined": set(), "modelled": set(), "havocked": set()}

        def acc(s, u):
            for k in ("paths", "solver_calls", "solver_time", "returned", "unsupported", "bound"):
                st[k] += s[k]
            st["unsupported_msgs"] += s["unsupported_msgs"]
            for k in used:
                used[k] |= u[k]

        # A. serialize
        def on_ser(res):
            ex = res.ex
            if res.outcome != "return":
                V.inconclusive.append(f"serialize: {res.outcome} {res.msg}")
                return
            v = ex.notes["v"]
            k = [i for i in range(nvar) if ex.solver.check(v.discr != i) == z3.unsat]
            if len(k) != 1:
                V.inconclusive.append("serialize path does not fix the variant")
                return
            evs = [e for e in ex.trace if e.name in ("ser_variant", "ser_refused")]
            tags[k[0]] = evs[0].extra if evs and evs[0].name == "ser_variant" else None

        def mk_ser(ex):
            v = ex.fresh(enum, "v")
            ex.notes["v"] = v
            return [VRef(ex.heap(v, "v")), VOpaque("Serializer", ex.new_vid(), "S")]
        s, u = engine.explore(P, CFG, ser, mk_ser, on_ser)
        acc(s, u)

        # B. visit_u64
        def on_u64(res):
            ex = res.ex
            if res.outcome != "return":
                V.inconclusive.append(f"visit_u64: {res.outcome} {res.msg}")
                return
            i = ex.notes["i"]
            f = field_of(res.ret)
            for k in range(nvar + 2):
                if ex.solver.check(i.bv == k) == z3.sat:
                    by_index[k] = f

        def mk_u64(ex):
            i = ex.fresh("u64", "tag")
            ex.notes["i"] = i
            return [VOpaque("FieldVisitor", ex.new_vid()), i]
        s, u = engine.explore(P, CFG, vu, mk_u64, on_u64)
        acc(s, u)

        # C. visit_str
        def on_str(res):
            ex = res.ex
            if res.outcome != "return":
                V.inconclusive.append(f"visit_str: {res.outcome} {res.msg}")
                return
            f = field_of(res.ret)
            for key, b in ex.lazy.items():
                if isinstance(key, tuple) and key[0] == "streq" and ex.solver.check(z3.Not(b)) == z3.unsat:
                    by_name[key[1]] = f

        def mk_str(ex):
            return [VOpaque("FieldVisitor", ex.new_vid()), VRef(ex.heap(VOpaque("str", ex.new_vid(), "tag"), "s"))]
        s, u = engine.explore(P, CFG, vs, mk_str, on_str)
        acc(s, u)
        state.update(tags=tags, by_index=by_index, by_name=by_name, nvar=nvar, stats=st, used=used)
        return state

    return run_all


def check_enum(enum):
    def special(P, t, V):
        import z3 as _z3
        st = make_target(enum)(P, V)
        if not st:
            return None
        names = [v[0] for v in P.types.enums[enum]]
        dummy = engine.Executor(P, CFG, [])
        for n, tag in sorted(st["tags"].items()):
            vname = names[n]
            if tag is None:
                V.witness("refused:" + vname)
                # only variants that cannot occur in a compiled program may be refused
                V.check(dummy, f"{enum}::{vname} is refused by Serialize only if no compiled program can contain it", vname in ("Dyn", "Message", "Enum"),
                        detail=f"{enum}::{vname} cannot be serialized",
                        scenario=lambda model, vname=vname: {"kind": "serde", "enum": enum, "variant": vname})
                continue
            V.witness("tagged:" + vname)
            got_i = st["by_index"].get(tag["index"])
            V.check(dummy, f"index tag of {enum}::{vname} selects the same variant when read back", got_i == n,
                    detail=f"{enum}::{vname} is written with index {tag['index']}; reading index {tag['index']} selects " + (f"{enum}::{names[got_i]}" if got_i is not None and got_i < len(names) else "no variant (an error)"),
                    scenario=lambda model, vname=vname: {"kind": "serde", "enum": enum, "variant": vname})
            got_s = st["by_name"].get(tag["name"])
            V.check(dummy, f"name tag of {enum}::{vname} selects the same variant when read back", got_s == n,
                    detail=f"{enum}::{vname} is written with name {tag['name']!r}; reading it selects {got_s}",
                    scenario=lambda model, vname=vname: {"kind": "serde", "enum": enum, "variant": vname})
            V.check(dummy, f"name tag of {enum}::{vname} is the variant's name", tag["name"] == vname, detail=str(tag))
        return st
    return special


TARGETS = [dict(name=f"c19_tags_{e.lower()}", props=["C19"], special=check_enum(e), cfg=CFG,
                what=f"every {e} variant that Serialize writes (index tag for bincode, name tag for JSON) is selected again by Deserialize's visit_u64 / visit_str",
                bounds={"variants": "all", "tags": "all u64 / all strings"}) for e in ENUMS]
