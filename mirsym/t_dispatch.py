"""Targets: the `#[dispatch]`-generated overload resolution of every built-in and type
constructor (C15's "accepts exactly its documented shapes, any other arity or type is an
error"; also the constructors of C14 and the accessors of C16).

For each generated `dispatch(this, args)` the MIR is executed with a receiver of any kind and
0..=max+1 arguments of any kind; the typed overloads (`pow_iir`, `get_hours_ztsr`, ...) are
uninterpreted and logged.  The table of accepted shapes is read off the overloads' mangled
names in the same dump (`z` prefix = receiver, one letter per parameter kind, last letter =
result), i.e. from the signatures written in the source.  Specification: when the call's
receiver and argument kinds equal one overload's shape (missing trailing arguments count as
null) exactly that overload is called, once, with exactly those payloads, and its result is
what the call returns; otherwise, and whenever there are more arguments than any overload
takes, the result is an error and no overload runs; no path panics."""
import os
import re
import z3

import engine
import models
from engine import VAdt, VBool, VInt, VOpaque, VRef, VSeq, VStruct, VTuple, Event, base_ty, vcopy
from specutil import is_variant, run_reference, vid_of

KIND = {"i": "Int", "u": "UInt", "d": "Float", "b": "Bool", "s": "String", "p": "Bytes", "v": "List", "m": "Map", "t": "TimeStamp", "y": "Duration", "n": "Null"}
THOROUGH = os.environ.get("MIRSYM_TIER") == "thorough"
# receivers / arguments are drawn from these kinds (Ident/ByteCode/Dyn/Type/Err never reach a dispatcher as such)
KINDS = ["Int", "UInt", "Float", "Bool", "String", "Bytes", "List", "Map", "Null", "TimeStamp", "Duration"]


def overloads_of(P, module_prefix):
    """[(function, this kind|None|'*', [arg kinds], result letter)] for the typed overloads called by a dispatcher"""
    return None


def parse_mangle(name):
    """`pow_iir` -> no receiver, (Int, Int), result r; `get_hours_ztsr` -> receiver TimeStamp,
    (String), result r.  A `z` directly followed by a kind letter at the start marks the
    receiver; any other `z` is a parameter of type CelValue (accepts every kind)."""
    base, _, m = name.rpartition("_")
    if not base or not m or not re.fullmatch(r"[iudbspvmtyrzn]+", m):
        return None
    ret, sig = m[-1], m[:-1]
    this, args, i = None, [], 0
    if len(sig) >= 2 and sig[0] == "z":
        this = KIND.get(sig[1], "*")
        i = 2
    while i < len(sig):
        args.append(KIND.get(sig[i], "*"))
        i += 1
    return dict(name=name, this=this, args=args, ret=ret)


def callees_of(func):
    out = []
    for b in func.blocks.values():
        if b.term and " = " in b.term and "(" in b.term:
            m = re.match(r"^\S+ = ([A-Za-z_][\w]*)\(", b.term)
            if m:
                out.append(m.group(1))
    return out


def m_overload(ex, callee, args, ret_ty, frame):
    ids = []
    for a in args:
        ids.append(("bv", a.bv) if isinstance(a, VInt) else ("b", a.b) if isinstance(a, VBool) else ("vid", vid_of(ex, a)))
    return ex.havoc(callee, args, ret_ty, {"args": ids})


def m_result_into(ex, callee, args, ret_ty, frame):
    """<Result<T, CelError> as Into<CelValue>>::into / <T as Into<CelValue>>::into on an overload's result:
    logged, the value itself is not inspected"""
    ex.trace.append(Event("into_celvalue", [args[0]], None, {"src": vid_of(ex, args[0]) if not isinstance(args[0], (VInt, VBool)) else id(args[0])}))
    return VOpaque("CelValue", ex.new_vid(), "converted result")


def cfg_for(names):
    return dict(
        inline=[r"^CelValue::(argument_error|from_null|from_err)$", r"^CelError::\w+$"], inline_default=False,
        opaque_types=("HashMap", "String", "CelBytes", "DateTime", "Duration", "Arc", "CelByteCode", "TimeDelta"),
        models=[(r"^(" + "|".join(re.escape(n) for n in names) + r")$", m_overload)],
        seq_bound=4, loop_bound=8,
    )


def payload_id(ex, v, kind):
    """identity of the payload an overload must receive for a value of that kind"""
    f = ex.adt_fields(v, ex.variant_index(v, kind))[0]
    return ("bv", f.bv) if isinstance(f, VInt) else ("b", f.b) if isinstance(f, VBool) else ("vid", vid_of(ex, f))


def same_id(a, b):
    if a[0] != b[0]:
        return False
    if a[0] == "vid":
        return a[1] == b[1]
    return z3.eq(z3.simplify(a[1]), z3.simplify(b[1]))


def make_target(disp_name):
    def entry(P):
        c = [f for f in P.free.get("dispatch", []) if f.name == disp_name]
        if len(c) != 1:
            raise KeyError(disp_name)
        return c[0]

    state = {}

    def prepare(P):
        f = entry(P)
        ovs = [o for o in (parse_mangle(n) for n in dict.fromkeys(callees_of(f))) if o]
        # overlapping shapes only arise through CelValue-typed ("any kind") parameters; the specific
        # overloads are tried before the catch-all ones (the source lists them that way)
        ovs.sort(key=lambda o: sum(1 for k in o["args"] + [o["this"]] if k == "*"))
        state["ovs"] = ovs
        # the generated code sizes its argument array by the longest parameter list *including* the
        # receiver; trailing arguments an overload does not take must be null (a missing argument is null)
        state["max"] = max([len(o["args"]) + (1 if o["this"] is not None else 0) for o in ovs] + [0])
        state["cfg"] = cfg_for([o["name"] for o in ovs])
        return f

    def make_args(ex, func):
        ovs, mx = state["ovs"], state["max"]
        this = ex.fresh("CelValue", "this")
        ex.assume(z3.Or([is_variant(ex, this, k) for k in KINDS]))
        nv = z3.BitVec(ex.fresh_name("nargs"), 64)
        n = ex.branch([(str(j), nv == j) for j in range(mx + 2)], "nargs")
        args = []
        for i in range(n):
            a = ex.fresh("CelValue", f"a{i}")
            ex.assume(z3.Or([is_variant(ex, a, k) for k in KINDS]))
            args.append(a)
        ex.notes.update(this=this, args=args)
        return [this, VSeq("CelValue", n, [vcopy(a) for a in args], ex.new_vid())]

    def check(res, V):
        ex = res.ex
        if res.outcome == "panic":
            V.check(ex, "the dispatcher answers with an error instead of panicking", False, detail=res.msg, scenario=scen(ex))
            return
        if res.outcome != "return":
            V.inconclusive.append(f"{res.outcome}: {res.msg}")
            return
        ovs, mx = state["ovs"], state["max"]
        this, args = ex.notes["this"], ex.notes["args"]
        calls = [e for e in ex.trace if e.extra is not None and "args" in e.extra]

        def ref(A):
            if len(args) > mx:
                return None
            for o in ovs:
                if o["this"] is None:
                    if not A.ask(is_variant(ex, this, "Null")):
                        continue
                elif o["this"] != "*" and not A.ask(is_variant(ex, this, o["this"])):
                    continue
                ok = True
                for i in range(mx):
                    if i < len(o["args"]):
                        k = o["args"][i]
                        if i >= len(args):
                            ok = k == "*" or k == "Null"  # a missing argument is null
                        elif k != "*" and not A.ask(is_variant(ex, args[i], k)):
                            ok = False
                    else:
                        if i < len(args) and not A.ask(is_variant(ex, args[i], "Null")):
                            ok = False
                    if not ok:
                        break
                if ok:
                    return o
            return None
        for assumed, o in run_reference(ex, ref):
            sc = scen(ex, o)
            if o is None:
                V.witness("rejected")
                V.check(ex, "a call whose shape matches no overload runs none of them", len(calls) == 0, assumed, detail=lambda: f"called {calls!r}", scenario=sc)
                r = res.ret
                V.check(ex, "and yields an error", isinstance(r, VAdt) and isinstance(r.discr, int) and ex.adt_variants(r.ty)[r.discr][0] == "Err", assumed, detail=lambda: repr(res.ret), scenario=sc)
                continue
            V.witness("accepted:" + o["name"])
            okc = len(calls) == 1 and calls[0].name == o["name"]
            V.check(ex, "the overload with that shape is called, exactly once", okc, assumed, detail=lambda: f"expected {o['name']}, called {[c.name for c in calls]}", scenario=sc)
            if not okc:
                continue
            want = []
            if o["this"] is not None:
                want.append(None if o["this"] == "*" else payload_id(ex, this, o["this"]))
            for i, k in enumerate(o["args"]):
                want.append(None if k in ("*", "Null") or i >= len(args) else payload_id(ex, args[i], k))
            got = calls[0].extra["args"]
            same = len(got) == len(want) and all(w is None or same_id(g, w) for g, w in zip(got, want))
            V.check(ex, "with the payloads of the receiver and the arguments in order", same, assumed, detail=lambda: f"{o['name']} got {got}, expected {want}", scenario=sc)
            # the overload's result reaches the caller through conversions only (u64 -> CelValue, Result -> CelValue, ...)
            def ident(v):
                return ("bv", v.bv) if isinstance(v, VInt) else ("b", v.b) if isinstance(v, VBool) else ("vid", vid_of(ex, v))
            cur = ident(calls[0].ret)
            after = ex.trace[ex.trace.index(calls[0]) + 1:]
            for e in after:
                if e.ret is not None and any(same_id(ident(a), cur) for a in e.args if a is not None):
                    cur = ident(e.ret)
            r = res.ret
            V.check(ex, "its result (converted to a value) is what the call returns", same_id(ident(r), cur), assumed, detail=lambda: f"returned {r!r}; conversions {after!r}", scenario=sc)

    def scen(ex, o="?"):
        def build(model):
            def variant(v):
                vs = ex.adt_variants(v.ty)
                return vs[v.discr][0] if isinstance(v.discr, int) else vs[model.eval(v.discr, model_completion=True).as_long()][0]
            return {"kind": "dispatch", "function": disp_name.split("::")[-3] if disp_name.count("::") >= 2 else disp_name, "dispatcher": disp_name,
                    "this": variant(ex.notes["this"]), "args": [variant(a) for a in ex.notes["args"]],
                    "expected": ("unknown" if o == "?" else "rejected" if o is None else "accepted:" + o["name"])}
        return build

    return dict(entry=prepare, make_args=make_args, check=check, state=state)


def all_dispatchers(P):
    return sorted(f.name for f in P.free.get("dispatch", []) if f.name.endswith("methods::dispatch"))


QUICK = ["math::pow::methods::dispatch", "size::methods::dispatch", "get_hours::methods::dispatch", "duration_type::methods::dispatch", "int_type::methods::dispatch",
         "timestamp_type::methods::dispatch", "contains_methods::dispatch", "abs::methods::dispatch", "string_type::methods::dispatch", "get_day_of_week::methods::dispatch"]
ALL = ["abs::methods::dispatch", "ceil::methods::dispatch", "floor::methods::dispatch", "lg::methods::dispatch", "log::methods::dispatch", "math::pow::methods::dispatch",
       "math::round::methods::dispatch", "sqrt::methods::dispatch", "size::methods::dispatch", "sort::methods::dispatch", "contains_methods::dispatch", "contains_i_methods::dispatch",
       "ends_with_methods::dispatch", "ends_with_i_methods::dispatch", "match_captures::methods::dispatch", "match_replace::methods::dispatch", "match_replace_once::methods::dispatch",
       "matches::methods::dispatch", "split_whitespace::methods::dispatch", "starts_with_methods::dispatch", "starts_with_i_methods::dispatch", "get_date::methods::dispatch",
       "get_day_of_month::methods::dispatch", "get_day_of_week::methods::dispatch", "get_day_of_year::methods::dispatch", "get_full_year::methods::dispatch", "get_hours::methods::dispatch",
       "get_milliseconds::methods::dispatch", "get_minutes::methods::dispatch", "get_month::methods::dispatch", "get_seconds::methods::dispatch", "uom::methods::dispatch",
       "bool_type::methods::dispatch", "bytes_type::methods::dispatch", "double_type::methods::dispatch", "duration_type::methods::dispatch", "dyn_type::methods::dispatch",
       "int_type::methods::dispatch", "string_type::methods::dispatch", "timestamp_type::methods::dispatch", "type_type::methods::dispatch", "uint_type::methods::dispatch"]


def props_of(name):
    if "_type::" in name:
        return ["C14", "C01"]
    if name.startswith("get_"):
        return ["C16", "C01"]
    return ["C15", "C01"]


TARGETS = []
for _n in ALL:
    _t = make_target(_n)
    _short = re.sub(r"(_methods|::methods)::dispatch$", "", _n).replace("math::", "")
    TARGETS.append(dict(name="disp_" + _short, props=props_of(_n), func=_t["entry"], cfg_fn=(lambda st=_t["state"]: st["cfg"]), cfg=None, make_args=_t["make_args"], check=_t["check"],
                        tier="quick", max_paths=60000,
                        what=f"generated overload resolution of `{_short}`: exactly the documented receiver/argument shapes are accepted, everything else (also too many arguments) is an error",
                        bounds={"receiver": "any of 11 kinds", "arguments": "0..=max+1, any of 11 kinds each"}))
