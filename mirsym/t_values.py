"""Targets on value-level functions that Kani cannot reach because they walk a `Vec<CelValue>`:
list indexing (with negative indices) and list membership (property C06)."""
import z3

import engine
import models
from engine import VAdt, VBool, VInt, VOpaque, VRef, VSeq, VStruct, VTuple, VUnit, Event, base_ty, vcopy
from specutil import is_variant, run_reference, vid_of

import os
LIST_BOUND = 5 if os.environ.get("MIRSYM_TIER") == "thorough" else 3


def m_eq(ex, callee, args, ret_ty, frame):
    a, b = vid_of(ex, args[0]), vid_of(ex, args[1])
    key = ("eq", a, b)
    if key not in ex.lazy:
        ex.lazy[key] = z3.Bool(f"eq@{a}@{b}")
    ex.used["havocked"].add("<CelValue as PartialEq>::eq (uninterpreted per pair of values)")
    ex.trace.append(Event("eq", [a, b], ex.lazy[key]))
    return VBool(ex.lazy[key])


VAL_CFG = dict(
    inline=[r"^CelValue::error_prop_or", r"^CelValue::(index|in_|is_err|from_err|from_bool|true_|false_)$", r"^CelError::\w+$", r"<CelValue as From<(bool|CelError)>>::from"],
    opaque_types=("HashMap", "String", "CelBytes", "DateTime", "Duration", "Arc", "CelByteCode"),
    models=[(r"^<CelValue as PartialEq>::eq$", m_eq), (r"^HashMap(::)?(<.*>)?::contains_key", lambda ex, c, a, r, f: m_contains_key(ex, c, a, r, f)), (r"^HashMap(::)?(<.*>)?::get(::<.*>)?$", lambda ex, c, a, r, f: __import__("t_vm").m_map_get(ex, c, a, r, f))],
    inline_default=True,
    keep_uninterpreted=[r"^<CelValue as ", r"^CelValue::(as_type|ord|eq)$"],
    seq_bound=LIST_BOUND,
    loop_bound=LIST_BOUND + 3,
)


def m_contains_key(ex, callee, args, ret_ty, frame):
    mv = models.deref(ex, args[0])
    key = ("haskey", getattr(mv, "vid", None), vid_of(ex, args[1]))
    if key not in ex.lazy:
        ex.lazy[key] = z3.Bool(f"haskey@{key[1]}@{key[2]}")
    ex.used["modelled"].add("HashMap::contains_key (arbitrary but fixed per map and key)")
    return VBool(ex.lazy[key])


def args_index(ex, func):
    obj = ex.fresh("CelValue", "obj")
    idx = ex.fresh("CelValue", "idx")
    ex.notes.update(obj=obj, idx=idx)
    return [obj, idx]


def payload(ex, v, name, i=0):
    return ex.adt_fields(v, ex.variant_index(v, name))[i]


def ref_index(A, ex):
    """l[i]: the i-th element for 0 <= i < size, the (size+i)-th for -size <= i < 0, an error
    outside that range or for a non-integer index; a failing operand propagates (leftmost first)"""
    obj, idx = ex.notes["obj"], ex.notes["idx"]
    if A.ask(is_variant(ex, obj, "Err")):
        return ("same", obj.vid)
    if A.ask(is_variant(ex, idx, "Err")):
        return ("same", idx.vid)
    if A.ask(is_variant(ex, obj, "Map")):
        # m[k]: the value stored under k, or an absent-field failure; non-string keys fail
        if not A.ask(is_variant(ex, idx, "String")):
            return ("anyerr",)
        import t_vm
        mv = payload(ex, obj, "Map")
        got = t_vm.env_lookup(ex, "mapget:%s" % getattr(mv, "vid", None), vid_of(ex, payload(ex, idx, "String")), "Option<&CelValue>")
        if A.ask(is_variant(ex, got, "Some")):
            return ("same", models.deref(ex, ex.adt_fields(got, 1)[0]).vid)
        return ("err", "Attribute")
    if not A.ask(is_variant(ex, obj, "List")):
        return ("outside",)
    seq = payload(ex, obj, "List")
    n = None
    for k in range(LIST_BOUND + 1):
        if A.ask(seq.length == k):
            n = k
            break
    if A.ask(is_variant(ex, idx, "Int")):
        i = payload(ex, idx, "Int").bv
        for k in range(n):
            if A.ask(z3.Or(i == k, i == k - n)):
                ex.seq_item(seq, k)
                return ("same", seq.items[k].vid)
        return ("err", "Value")
    if A.ask(is_variant(ex, idx, "UInt")):
        u = payload(ex, idx, "UInt").bv
        for k in range(n):
            if A.ask(u == k):
                ex.seq_item(seq, k)
                return ("same", seq.items[k].vid)
        return ("err", "Value")
    return ("anyerr",)


def value_scenario(ex, kind):
    """concrete (list, index) / (needle, list) instance of the model, with the result the
    property demands computed here in plain python (independent of rscel)"""
    def build(model):
        def mv(t):
            return model.eval(t, model_completion=True)

        def variant(v):
            vs = ex.adt_variants(v.ty)
            return vs[v.discr][0] if isinstance(v.discr, int) else vs[mv(v.discr).as_long()][0]
        if kind == "index":
            obj, idx = ex.notes["obj"], ex.notes["idx"]
            if variant(obj) == "Map" and variant(idx) == "String":
                import t_vm
                mp = payload(ex, obj, "Map")
                got = ex.lazy.get(("env", "mapget:%s" % getattr(mp, "vid", None), vid_of(ex, payload(ex, idx, "String"))))
                present = got is not None and variant(got) == "Some"
                d = {"other": {"Int": 1}}
                if present:
                    d["k"] = {"Int": 42}
                return {"kind": "value", "request": {"instrs": [{"op": "Push", "val": {"Map": d}}, {"op": "Push", "val": {"Str": "k"}}, {"op": "Index"}], "resolve": True},
                        "expected": {"ok": "Int(42)"} if present else {"err": "Attribute"}}
            if variant(obj) != "List":
                return {"unavailable": "receiver is not a list in this counterexample"}
            seq = payload(ex, obj, "List")
            n = seq.length if isinstance(seq.length, int) else mv(seq.length).as_long()
            items = [{"Int": 100 + k} for k in range(n)]
            ik = variant(idx)
            if ik == "Int":
                i = mv(payload(ex, idx, "Int").bv).as_signed_long()
                iv = {"Int": i}
                j = i if i >= 0 else n + i
                exp = {"ok": f"Int({100 + j})"} if 0 <= j < n and i >= -n else {"err": "Value"}
            elif ik == "UInt":
                u = mv(payload(ex, idx, "UInt").bv).as_long()
                iv = {"UInt": u}
                exp = {"ok": f"Int({100 + u})"} if u < n else {"err": "Value"}
            elif ik in ("Bool", "Null", "String"):
                iv = {"Bool": True} if ik == "Bool" else ({"Null": None} if ik == "Null" else {"Str": "k"})
                exp = {"anyerr": True}
            else:
                return {"unavailable": f"index kind {ik} has no concrete stand-in"}
            return {"kind": "value", "request": {"instrs": [{"op": "Push", "val": {"List": items}}, {"op": "Push", "val": iv}, {"op": "Index"}], "resolve": True}, "expected": exp}
        lhs, rhs = ex.notes["lhs"], ex.notes["rhs"]
        if variant(rhs) == "Map" and variant(lhs) in ("Int", "Bool", "Null", "UInt"):
            lv = {"Int": {"Int": 5}, "UInt": {"UInt": 5}, "Bool": {"Bool": True}, "Null": {"Null": None}}[variant(lhs)]
            return {"kind": "value", "request": {"instrs": [{"op": "Push", "val": lv}, {"op": "Push", "val": {"Map": {"a": {"Int": 1}}}}, {"op": "In"}], "resolve": True}, "expected": {"anyerr": True}}
        if variant(rhs) in ("Int", "Bool", "Null", "UInt") and variant(lhs) in ("Int", "Bool", "Null", "UInt"):
            mk = lambda k: {"Int": {"Int": 5}, "UInt": {"UInt": 5}, "Bool": {"Bool": True}, "Null": {"Null": None}}[k]
            return {"kind": "value", "request": {"instrs": [{"op": "Push", "val": mk(variant(lhs))}, {"op": "Push", "val": mk(variant(rhs))}, {"op": "In"}], "resolve": True}, "expected": {"anyerr": True}}
        if variant(rhs) != "List" or variant(lhs) in ("Err", "Ident"):
            return {"unavailable": "operands without a concrete stand-in"}
        seq = payload(ex, rhs, "List")
        n = seq.length if isinstance(seq.length, int) else mv(seq.length).as_long()
        items, member = [], False
        for k in range(n):
            ex.seq_item(seq, k)
            e = ex.lazy.get(("eq", lhs.vid, seq.items[k].vid))
            same = e is not None and z3.is_true(mv(e))
            member = member or same
            # an element that differs from the needle is given another kind: lists are dynamically
            # typed, and "differs" must not depend on the elements sharing the needle's type
            items.append({"Int": 5} if same else ({"Str": f"e{k}"} if k % 2 == 0 else {"Int": 100 + k}))
        return {"kind": "value", "request": {"instrs": [{"op": "Push", "val": {"Int": 5}}, {"op": "Push", "val": {"List": items}}, {"op": "In"}], "resolve": True},
                "expected": {"ok": f"Bool({'true' if member else 'false'})"}}
    return build


def check_value(ref, kind):
    def check(res, V):
        ex = res.ex
        scen = value_scenario(ex, kind)
        if res.outcome == "panic":
            V.check(ex, "returns an error value instead of panicking", False, detail=res.msg, scenario=scen)
            return
        if res.outcome != "return":
            V.inconclusive.append(f"{res.outcome}: {res.msg}")
            return
        ret = res.ret
        for assumed, exp in run_reference(ex, lambda A: ref(A, ex)):
            V.witness(exp[0])
            if exp[0] == "outside":
                continue
            if exp[0] == "same":
                ok = z3.BoolVal(getattr(ret, "vid", None) == exp[1])
            elif exp[0] == "anyerr":
                ok = is_variant(ex, ret, "Err")
            elif exp[0] == "err":
                ok = z3.BoolVal(isinstance(ret.discr, int) and ex.adt_variants(ret.ty)[ret.discr][0] == "Err") if isinstance(ret.discr, int) else z3.BoolVal(False)
                if isinstance(ret.discr, int) and z3.is_true(ok):
                    ok = is_variant(ex, ret.fields[ret.discr][0], exp[1])
            elif exp[0] == "bool":
                ok = z3.BoolVal(False)
                if isinstance(ret.discr, int) and ex.adt_variants(ret.ty)[ret.discr][0] == "Bool":
                    ok = ret.fields[ret.discr][0].b == exp[1]
            def pref():
                # among the counterexamples prefer operand kinds that have a concrete stand-in
                out = []
                for key in ("lhs", "idx"):
                    v = ex.notes.get(key)
                    if isinstance(v, VAdt) and not isinstance(v.discr, int):
                        out.append(is_variant(ex, v, "Int"))
                return out
            V.check(ex, f"result is {exp[0]}", ok, assumed, detail=lambda: f"expected {exp}; returned {ret!r}; obj={ex.notes.get('obj')!r} idx={ex.notes.get('idx')!r}", scenario=scen, prefer=pref)
    return check


def args_in(ex, func):
    lhs = ex.fresh("CelValue", "needle")
    rhs = ex.fresh("CelValue", "haystack")
    ex.notes.update(lhs=lhs, rhs=rhs)
    return [lhs, rhs]


def ref_in(A, ex):
    lhs, rhs = ex.notes["lhs"], ex.notes["rhs"]
    if A.ask(is_variant(ex, lhs, "Err")):
        return ("same", lhs.vid)
    if A.ask(is_variant(ex, rhs, "Err")):
        return ("same", rhs.vid)
    if A.ask(is_variant(ex, rhs, "Map")):
        # key presence for string keys; any other left operand is an error
        if not A.ask(is_variant(ex, lhs, "String")):
            return ("anyerr",)
        mv = payload(ex, rhs, "Map")
        key = ("haskey", getattr(mv, "vid", None), vid_of(ex, payload(ex, lhs, "String")))
        if key not in ex.lazy:
            ex.lazy[key] = z3.Bool(f"haskey@{key[1]}@{key[2]}")
        return ("bool", ex.lazy[key])
    if not A.ask(is_variant(ex, rhs, "List")):
        if A.ask(is_variant(ex, rhs, "String")):
            return ("outside",)  # substring search is std's
        return ("anyerr",)  # "an error for other operand types"
    seq = payload(ex, rhs, "List")
    n = None
    for k in range(LIST_BOUND + 1):
        if A.ask(seq.length == k):
            n = k
            break
    member = z3.BoolVal(False)
    for k in range(n):
        ex.seq_item(seq, k)
        key = ("eq", lhs.vid, seq.items[k].vid)
        if key not in ex.lazy:
            ex.lazy[key] = z3.Bool(f"eq@{lhs.vid}@{seq.items[k].vid}")
        member = z3.Or(member, ex.lazy[key])
    return ("bool", member)


def args_concat(ex, func):
    a, b = ex.fresh("CelValue", "a"), ex.fresh("CelValue", "b")
    for v in (a, b):
        ex.assume(is_variant(ex, v, "List"))
    ex.notes.update(a=a, b=b)
    return [a, b]


def seq_len(A, seq):
    if isinstance(seq.length, int):
        return seq.length
    for k in range(LIST_BOUND + 1):
        if A.ask(seq.length == k):
            return k
    raise engine.PathEnd("infeasible")


def check_concat(res, V):
    ex = res.ex
    if res.outcome == "panic":
        V.check(ex, "returns an error value instead of panicking", False, detail=res.msg)
        return
    if res.outcome != "return":
        V.inconclusive.append(f"{res.outcome}: {res.msg}")
        return
    ret = res.ret
    a, b = payload(ex, ex.notes["a"], "List"), payload(ex, ex.notes["b"], "List")

    def ref(A):
        na, nb = seq_len(A, a), seq_len(A, b)
        for j in range(na):
            ex.seq_item(a, j)
        for j in range(nb):
            ex.seq_item(b, j)
        return [x.vid for x in a.items[:na]] + [x.vid for x in b.items[:nb]]
    for assumed, want in run_reference(ex, ref):
        V.witness(f"{len(want)} elements")
        ok = isinstance(ret, VAdt) and isinstance(ret.discr, int) and ex.adt_variants(ret.ty)[ret.discr][0] == "List"
        got = [getattr(x, "vid", None) for x in ret.fields[ret.discr][0].items] if ok else None
        V.check(ex, "list + list holds the left elements then the right elements, in order", ok and got == want, assumed, detail=lambda: f"expected {want}, got {ret!r}",
                scenario=lambda model, want=want: {"kind": "value", "request": {"instrs": [{"op": "Push", "val": {"List": [{"Int": 100 + i} for i in range(seq_len_model(model, a))]}},
                                                                                             {"op": "Push", "val": {"List": [{"Int": 200 + i} for i in range(seq_len_model(model, b))]}}, {"op": "Add"}], "resolve": True},
                                                    "expected": {"ok": "List([" + ", ".join([f"Int({100 + i})" for i in range(seq_len_model(model, a))] + [f"Int({200 + i})" for i in range(seq_len_model(model, b))]) + "])"}})


def seq_len_model(model, seq):
    return seq.length if isinstance(seq.length, int) else model.eval(seq.length, model_completion=True).as_long()


def args_size(ex, func):
    this = ex.fresh("CelValue", "this")
    ex.assume(is_variant(ex, this, "List"))
    ex.notes.update(this=this)
    return [this, VSeq("CelValue", 0, [], ex.new_vid())]


def check_size(res, V):
    ex = res.ex
    if res.outcome == "panic":
        V.check(ex, "returns an error value instead of panicking", False, detail=res.msg)
        return
    if res.outcome != "return":
        V.inconclusive.append(f"{res.outcome}: {res.msg}")
        return
    ret = res.ret
    seq = payload(ex, ex.notes["this"], "List")
    for assumed, n in run_reference(ex, lambda A: seq_len(A, seq)):
        V.witness(f"size {n}")
        ok = isinstance(ret, VAdt) and isinstance(ret.discr, int) and ex.adt_variants(ret.ty)[ret.discr][0] in ("UInt", "Int")
        V.check(ex, "size of a list is its element count", (ret.fields[ret.discr][0].bv == n) if ok else False, assumed, detail=lambda: f"size of a {n}-element list: {ret!r}",
                scenario=lambda model, n=n: {"kind": "eval", "request": {"programs": [["main", "l.size()"]], "run": ["main"], "params": {"l": list(range(n))}}, "expected": {"ok": f"UInt({n})"}})


def entry_add(P):
    c = [f for f in P.trait_impls.get(("CelValue", "Add", "add"), [])]
    if len(c) != 1:
        raise KeyError("<CelValue as Add>::add")
    return c[0]


def entry_size(P):
    c = [f for f in P.free.get("dispatch", []) if f.name.startswith("size::")]
    if len(c) != 1:
        raise KeyError("size::methods::dispatch")
    return c[0]


TARGETS = [
    dict(name="val_index", props=["C06", "C08", "C01"], func="index", self_ty="CelValue", cfg=VAL_CFG, make_args=args_index, check=check_value(ref_index, "index"),
         what="l[i] for lists of 0..=3 elements and every int / uint / other index: i-th element, (size+i)-th for negative i, error outside; m[k]: stored value or an absent-field failure; failing operands propagate",
         bounds={"list_len": f"0..={LIST_BOUND}", "index": "all i64 / all u64 / every other kind"}),
    dict(name="val_concat_list", props=["C06", "C01"], func=entry_add, cfg=VAL_CFG, make_args=args_concat, check=check_concat,
         what="l1 + l2 for lists of 0..=3 elements each: the elements of l1 then those of l2, in order",
         bounds={"list_len": f"0..={LIST_BOUND} each"}),
    dict(name="val_size_list", props=["C06", "C01"], func=entry_size, cfg=VAL_CFG, make_args=args_size, check=check_size,
         what="l.size() for lists of 0..=3 elements: the element count (through the generated dispatcher)",
         bounds={"list_len": f"0..={LIST_BOUND}"}),
    dict(name="val_in_list", props=["C06", "C01"], func="in_", self_ty="CelValue", cfg=VAL_CFG, make_args=args_in, check=check_value(ref_in, "in"),
         what="x in l for lists of 0..=3 elements: true iff some element equals x (equality uninterpreted); x in m: key presence for string keys, an error for other keys; an error for other right operands; failing operands propagate",
         bounds={"list_len": f"0..={LIST_BOUND}"}),
]
