"""Regenerates the MIR dump of the rscel crate from a repository working tree.

`python3 mirdump.py <repo> <out.mir> [<target-dir>]`
The crate is rebuilt on every call (the previous build of the rscel crate in the target
directory is removed first), with the features the registered checks use and without
verif_hooks, so the MIR is that of the code users run (dev profile, overflow checks on).
"""
import os, subprocess, sys, shutil, glob, time

FEATURES = "type_prop,neg_index"


def dump(repo, out, target_dir):
    env = dict(os.environ)
    env["CARGO_NET_OFFLINE"] = "true"
    env["CARGO_TARGET_DIR"] = target_dir
    env.pop("RUSTFLAGS", None)
    env["RUSTUP_TOOLCHAIN"] = "nightly"
    os.makedirs(target_dir, exist_ok=True)
    # force a rebuild of the rscel crate itself (dependencies stay cached)
    for p in glob.glob(os.path.join(target_dir, "debug", ".fingerprint", "rscel-*")):
        if not os.path.basename(p).startswith("rscel-macro"):
            shutil.rmtree(p, ignore_errors=True)
    cmd = ["cargo", "rustc", "--offline", "--lib", "--no-default-features", "--features", FEATURES, "--",
           "-Zunpretty=mir", "-C", "debug-assertions=off", "-C", "overflow-checks=on"]
    t = time.time()
    p = subprocess.run(cmd, cwd=os.path.join(repo, "rscel"), env=env, stdout=subprocess.PIPE, stderr=subprocess.PIPE, text=True)
    if p.returncode != 0 or "fn " not in p.stdout:
        sys.stderr.write(p.stderr[-3000:])
        return False, time.time() - t
    open(out, "w").write(p.stdout)
    return True, time.time() - t


def dump_to_sql(repo, out, target_dir):
    """MIR of the SQL translator (extensions/to_sql, a separate crate that depends on rscel with its
    default features)"""
    env = dict(os.environ)
    env["CARGO_NET_OFFLINE"] = "true"
    env["CARGO_TARGET_DIR"] = target_dir
    env.pop("RUSTFLAGS", None)
    env["RUSTUP_TOOLCHAIN"] = "nightly"
    os.makedirs(target_dir, exist_ok=True)
    for p in glob.glob(os.path.join(target_dir, "debug", ".fingerprint", "rscel-to-sql-*")):
        shutil.rmtree(p, ignore_errors=True)
    cmd = ["cargo", "rustc", "--offline", "--lib", "--", "-Zunpretty=mir", "-C", "debug-assertions=off", "-C", "overflow-checks=on"]
    t = time.time()
    p = subprocess.run(cmd, cwd=os.path.join(repo, "extensions", "to_sql"), env=env, stdout=subprocess.PIPE, stderr=subprocess.PIPE, text=True)
    if p.returncode != 0 or "fn " not in p.stdout:
        sys.stderr.write(p.stderr[-3000:])
        return False, time.time() - t
    open(out, "w").write(p.stdout)
    return True, time.time() - t


if __name__ == "__main__":
    # all paths absolute: cargo runs inside the repository, and a relative target directory would
    # be created there
    repo, out = os.path.abspath(sys.argv[1]), os.path.abspath(sys.argv[2])
    td = os.path.abspath(sys.argv[3]) if len(sys.argv) > 3 else os.path.join(os.path.dirname(out), "mir-target")
    if len(sys.argv) > 4:
        sys.argv[4] = os.path.abspath(sys.argv[4])
    ok, secs = dump(repo, out, td)
    print(f"mir dump {'ok' if ok else 'FAILED'} in {secs:.1f}s -> {out}")
    if ok and len(sys.argv) > 4:
        ok, secs = dump_to_sql(repo, sys.argv[4], td + "-sql")
        print(f"mir dump (to_sql) {'ok' if ok else 'FAILED'} in {secs:.1f}s -> {sys.argv[4]}")
    sys.exit(0 if ok else 2)
