"""Target: label resolution of the compiler's back end (`PreResolvedByteCode::resolve`, C10).

Symbolic input: a sequence of 0..=N code points, each an arbitrary one of Bytecode(..),
Jmp{label}, JmpCond{when,label}, Label(id) with symbolic label ids, under the compiler's label
discipline (every label defined at most once, every referenced label defined).  The
`HashMap<u32, usize>` of label locations is modelled as an association list over symbolic
keys (lookup = if-then-else chain, last insertion wins)."""
import z3

import engine
import models
from engine import VAdt, VBool, VInt, VOpaque, VRef, VSeq, VStruct, VTuple, VUnit, VMap, Event, base_ty, vcopy
from specutil import is_variant, run_reference, vid_of

import os
N = 5 if os.environ.get("MIRSYM_TIER") == "thorough" else 4
LABELS = 4


def m_hm_new(ex, callee, args, ret_ty, frame):
    return VMap(ex.new_vid(), sym=True)


def m_hm_contains(ex, callee, args, ret_ty, frame):
    m, k = models.deref(ex, args[0]), models.deref(ex, args[1])
    return VBool(z3.Or([k.bv == kk.bv for kk, _ in m.entries] + [z3.BoolVal(False)]))


def m_hm_insert(ex, callee, args, ret_ty, frame):
    m = models.deref(ex, args[0])
    m.entries.append((args[1], args[2]))
    return models.mk_option(ex, engine.norm_ty(ret_ty) if ret_ty else None)


def m_hm_index(ex, callee, args, ret_ty, frame):
    m, k = models.deref(ex, args[0]), models.deref(ex, args[1])
    present = z3.Or([k.bv == kk.bv for kk, _ in m.entries] + [z3.BoolVal(False)])
    if not ex.branch_bool(present, "HashMap[index].present"):
        raise engine.PathEnd("panic", "HashMap index: key not found")
    val = None
    for kk, vv in m.entries:  # later insertions win
        val = vv.bv if val is None else z3.If(k.bv == kk.bv, vv.bv, val)
    return VRef(ex.heap(VInt(val, False), "map.value"))


CFG = dict(
    inline=[r"^PreResolvedByteCode::", r"^CelByteCode::(new|push|len)$", r"^JmpWhen::", r"<JmpWhen as"],
    opaque_types=("String", "HashMap", "CelValue"),
    models=[(r"^HashMap::<u32, usize>::new$", m_hm_new), (r"^HashMap::<u32, usize>::contains_key", m_hm_contains),
            (r"^HashMap::<u32, usize>::insert$", m_hm_insert), (r"^<HashMap<u32, usize> as Index<&u32>>::index$", m_hm_index)],
    seq_bound=N, loop_bound=N + 3, inline_default=True,
)


def fld(ex, v, name, i=0):
    return ex.adt_fields(v, ex.variant_index(v, name))[i]


def make_args(ex, func):
    nv = z3.BitVec(ex.fresh_name("npoints"), 64)
    n = ex.branch([(str(k), nv == k) for k in range(N + 1)], "npoints")
    pts = [ex.fresh("PreResolvedCodePoint", f"cp{i}") for i in range(n)]
    lab_def = [fld(ex, p, "Label") for p in pts]
    lab_jmp = [fld(ex, p, "Jmp") for p in pts]
    lab_jc = [fld(ex, p, "JmpCond", 1) for p in pts]
    isl = [is_variant(ex, p, "Label") for p in pts]
    for i in range(n):
        for l in (lab_def[i], lab_jmp[i], lab_jc[i]):
            ex.assume(z3.ULT(l.bv, LABELS))
        for j in range(i + 1, n):
            ex.assume(z3.Not(z3.And(isl[i], isl[j], lab_def[i].bv == lab_def[j].bv)))
        defined = lambda l: z3.Or([z3.And(isl[j], lab_def[j].bv == l.bv) for j in range(n)] + [z3.BoolVal(False)])
        ex.assume(z3.Implies(is_variant(ex, pts[i], "Jmp"), defined(lab_jmp[i])))
        ex.assume(z3.Implies(is_variant(ex, pts[i], "JmpCond"), defined(lab_jc[i])))
    ex.notes.update(points=pts)
    me = VStruct("PreResolvedByteCode", [VSeq("PreResolvedCodePoint", n, [vcopy(p) for p in pts], ex.new_vid()), ex.fresh("usize", "len")], ex.new_vid())
    return [me]


def resolve_scenario(ex):
    def build(model):
        def mv(t):
            return model.eval(t, model_completion=True)
        pts, loc, cur = [], {}, 0
        for p in ex.notes["points"]:
            k = ex.adt_variants(p.ty)[p.discr if isinstance(p.discr, int) else mv(p.discr).as_long()][0]
            if k == "Bytecode":
                pts.append({"B": len(pts)})
                cur += 1
            elif k == "Jmp":
                pts.append({"J": mv(fld(ex, p, "Jmp").bv).as_long()})
                cur += 1
            elif k == "JmpCond":
                w = fld(ex, p, "JmpCond", 0)
                wt = ex.adt_variants(w.ty)[w.discr if isinstance(w.discr, int) else mv(w.discr).as_long()][0] == "True"
                pts.append({"JC": [wt, mv(fld(ex, p, "JmpCond", 1).bv).as_long()]})
                cur += 1
            else:
                lab = mv(fld(ex, p, "Label").bv).as_long()
                pts.append({"L": lab})
                loc[lab] = cur
        exp, pos = [], 0
        for q in pts:
            (k, x), = q.items()
            if k == "L":
                continue
            pos += 1
            if k == "B":
                exp.append(f"B({x})")
            elif k == "J":
                exp.append(f"J({loc[x] - pos})")
            else:
                exp.append(f"JC({'true' if x[0] else 'false'},{loc[x[1]] - pos})")
        return {"kind": "resolve", "request": {"points": pts}, "expected": exp}
    return build


def check(res, V):
    ex = res.ex
    _scen = resolve_scenario(ex)
    _orig = V.check

    def vcheck(*a, **kw):
        kw.setdefault("scenario", _scen)
        return _orig(*a, **kw)
    V = type("VV", (), {"check": staticmethod(vcheck), "witness": V.witness, "inconclusive": V.inconclusive})
    if res.outcome == "panic":
        V.check(ex, "resolve does not panic under the label discipline", False, detail=res.msg)
        return
    if res.outcome != "return":
        V.inconclusive.append(f"{res.outcome}: {res.msg}")
        return
    pts = ex.notes["points"]
    out = res.ret.fields[0]  # CelByteCode { inner }
    got = out.items

    def ref(A):
        """expected: [(kind, payload)] and label locations"""
        loc, cur, exp = {}, 0, []
        kinds = []
        for p in pts:
            k = [name for name in ("Bytecode", "Jmp", "JmpCond", "Label") if A.ask(is_variant(ex, p, name))][0]
            kinds.append(k)
        return kinds
    for assumed, kinds in run_reference(ex, ref):
        V.witness("/".join(k[0] for k in kinds) or "empty")
        n_out = sum(1 for k in kinds if k != "Label")
        V.check(ex, "one instruction per non-label code point", isinstance(out.length, int) and out.length == n_out, assumed,
                detail=lambda: f"kinds {kinds}, output {got!r}")
        if not (isinstance(out.length, int) and out.length == n_out):
            continue
        pos = 0
        for i, (p, k) in enumerate(zip(pts, kinds)):
            if k == "Label":
                continue
            o = got[pos]
            pos += 1
            if k == "Bytecode":
                V.check(ex, "plain instructions are kept in order", getattr(o, "vid", None) == fld(ex, p, "Bytecode").vid, assumed, detail=lambda: f"slot {pos - 1}: {o!r}")
                continue
            lab = fld(ex, p, "Jmp") if k == "Jmp" else fld(ex, p, "JmpCond", 1)
            want_name = "Jmp" if k == "Jmp" else "JmpCond"
            okk = isinstance(o, VAdt) and isinstance(o.discr, int) and ex.adt_variants(o.ty)[o.discr][0] == want_name
            V.check(ex, f"{k} stays a {want_name}", okk, assumed, detail=lambda: f"{o!r}")
            if not okk:
                continue
            dist = o.fields[o.discr][0] if k == "Jmp" else o.fields[o.discr][1]
            # target = position after the jump + dist must be the number of instructions before the label
            target = z3.SignExt(32, dist.bv) + pos
            conds = []
            for j, (q, kq) in enumerate(zip(pts, kinds)):
                if kq != "Label":
                    continue
                before = sum(1 for t in kinds[:j] if t != "Label")
                conds.append(z3.Implies(fld(ex, q, "Label").bv == lab.bv, target == before))
            V.check(ex, "jump lands on its label's location", z3.And(conds + [z3.BoolVal(True)]), assumed, detail=lambda: f"point {i} ({k}) -> {o!r}")
            V.check(ex, "jump target inside the block or exactly at its end", z3.And(target >= 0, target <= n_out), assumed, detail=lambda: f"point {i} -> {o!r}")
            if k == "JmpCond":
                w_in, w_out = fld(ex, p, "JmpCond", 0), o.fields[o.discr][0]
                V.check(ex, "JmpCond keeps its polarity", z3.BoolVal(w_in.vid == w_out.vid) if not isinstance(w_out.discr, int) or not isinstance(w_in.discr, int) else z3.BoolVal(w_in.discr == w_out.discr), assumed)


TARGETS = [dict(name="c10_resolve", props=["C10", "C01"], func="resolve", self_ty="PreResolvedByteCode", cfg=CFG, make_args=make_args, check=check,
                what="label resolution: every Jmp/JmpCond gets the relative offset that lands on its label's location (inside the block or at its end); other instructions keep their order",
                bounds={"code_points": f"0..={N}", "label_ids": f"< {LABELS}", "precondition": "each label defined at most once, every referenced label defined"})]
