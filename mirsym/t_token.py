"""Target: the tokenizer on literals (properties C13 and C18).

The MIR of `StringTokenizer::{with_input, next, collect_next_token, parse_number_or_token,
parse_string_literal, extract_hex_val}`, `StringScanner::{from_input, next, peek, location}`,
`TokenWithLoc::new`, `SourceRange::new`, `SyntaxError::*` is executed on an input text whose
characters (and, per template, length) are symbolic.  Strings are modelled as sequences of
32-bit character terms: `String::{new,push,is_empty}`, `to_owned`, `==`, `contains`,
`trim_start_matches`, `str::chars`, `char::{is_digit, from_u32, encode_utf8, to_string}` and
`{u8,u32,u64}::from_str_radix` are summaries with their documented meaning (the radix parser is
a symbolic fold with an overflow check); `str::parse::<f64>` is uninterpreted (correct rounding
is std's) but the text it is given is compared.

Specification (from the statement): a well-formed literal that makes up the whole input
denotes exactly the value it spells - decimal and hexadecimal integers, `u` suffix, the three
shapes of doubles, quoted strings with `\\xHH`, `\\uHHHH`, `\\UHHHHHHHH`, three-digit octal and the
single-character escapes - values that do not fit and invalid code points or digits are a
syntax error; the token's span is the whole input (C18)."""
import re
import z3

import engine
import models
from engine import VAdt, VBool, VInt, VOpaque, VRef, VSeq, VStruct, VTuple, VUnit, VStr, VIter, Event, base_ty, vcopy, norm_ty
from specutil import is_variant, run_reference, vid_of, find_func

NOT = models.NOT_HANDLED
WIDE = 128  # 20 decimal digits < 2^67, 8 hex digits < 2^32: no wrap-around in the folds


def C(c):
    return z3.BitVecVal(ord(c) if isinstance(c, str) else c, 32)


def chars_of(ex, v):
    """list of 32-bit terms for a string-like value (VStr constant, reference to / value of a char sequence)"""
    if isinstance(v, VRef):
        v = ex.read(v.root, v.path)
        if isinstance(v, VRef):
            v = ex.read(v.root, v.path)
    if isinstance(v, VStr):
        return [C(ch) for ch in v.s]
    if isinstance(v, VSeq):
        if not isinstance(v.length, int):
            raise engine.Unsupported("string operation on a symbolic-length text")
        return [x.bv for x in v.items]
    raise engine.Unsupported(f"not a text: {v!r}")


def text(ex, terms):
    return VSeq("char", len(terms), [VInt(t, False) for t in terms], ex.new_vid())


def m_string_new(ex, callee, args, ret_ty, frame):
    return text(ex, [])


def m_string_push(ex, callee, args, ret_ty, frame):
    s = models.deref(ex, args[0])
    s.items.append(args[1])
    s.length += 1
    return VUnit()


def m_string_len(ex, callee, args, ret_ty, frame):
    """String::len in bytes: exact for the ASCII strings these loops build (hex digits), refused otherwise"""
    sq = models.deref(ex, args[0])
    if not isinstance(sq, VSeq) or not isinstance(sq.length, int):
        return models.NOT_HANDLED
    for c in sq.items:
        if not ex.prove(z3.ULT(c.bv, 128)) if hasattr(ex, "prove") else ex.solver.check(z3.Not(z3.ULT(c.bv, 128))) != z3.unsat:
            raise engine.Unsupported("String::len of a string that may hold non-ASCII characters")
    return VInt(z3.BitVecVal(sq.length, 64), False)


def m_string_is_empty(ex, callee, args, ret_ty, frame):
    return VBool(len(chars_of(ex, args[0])) == 0)


def m_to_owned(ex, callee, args, ret_ty, frame):
    a = args[0]
    if isinstance(a, VInt):  # <char as ToString>::to_string
        return text(ex, [a.bv])
    if isinstance(a, VRef):
        inner = ex.read(a.root, a.path)
        if isinstance(inner, VInt):
            return text(ex, [inner.bv])
    return text(ex, chars_of(ex, a))


def m_str_eq(ex, callee, args, ret_ty, frame):
    a, b = chars_of(ex, args[0]), chars_of(ex, args[1])
    if len(a) != len(b):
        return VBool(False)
    return VBool(z3.And([x == y for x, y in zip(a, b)] + [z3.BoolVal(True)]))


def m_contains(ex, callee, args, ret_ty, frame):
    s, p = chars_of(ex, args[0]), chars_of(ex, args[1])
    if len(p) == 0:
        return VBool(True)
    alts = []
    for i in range(len(s) - len(p) + 1):
        alts.append(z3.And([s[i + j] == p[j] for j in range(len(p))]))
    return VBool(z3.Or(alts + [z3.BoolVal(False)]))


def m_trim_start(ex, callee, args, ret_ty, frame):
    s, p = chars_of(ex, args[0]), chars_of(ex, args[1])
    k = 0
    while len(p) > 0 and k + len(p) <= len(s):
        c = z3.And([s[k + j] == p[j] for j in range(len(p))])
        if not ex.branch_bool(c, "trim_start_matches"):
            break
        k += len(p)
    return VRef(ex.heap(text(ex, s[k:]), "trimmed"))


def m_chars(ex, callee, args, ret_ty, frame):
    a = args[0]
    if isinstance(a, VStr):
        return VIter(text(ex, [C(c) for c in a.s]), 0, None, "owned")
    return VIter(None, 0, a, "copy")


def m_chars_next(ex, callee, args, ret_ty, frame):
    it = models.deref(ex, args[0])
    if isinstance(it, VIter) and it.kind == "copy":
        seq = models.deref(ex, it.src)
        rt = norm_ty(ret_ty) if ret_ty else "Option<char>"
        more = (it.pos < seq.length) if isinstance(seq.length, int) else ex.branch_bool(z3.UGT(seq.length, it.pos), "chars.next")
        if not more:
            return models.mk_option(ex, rt)
        i = it.pos
        it.pos += 1
        ex.seq_item(seq, i)
        return models.mk_option(ex, rt, vcopy(seq.items[i]))
    return models.m_iter_next(ex, callee, args, ret_ty, frame)


def utf8_len(c):
    return z3.If(z3.ULT(c, 0x80), z3.BitVecVal(1, 64), z3.If(z3.ULT(c, 0x800), z3.BitVecVal(2, 64), z3.If(z3.ULT(c, 0x10000), z3.BitVecVal(3, 64), z3.BitVecVal(4, 64))))


def utf8_bytes(c):
    """the four candidate bytes of the UTF-8 encoding of the scalar c (only the first utf8_len count)"""
    x = lambda hi, lo: z3.ZeroExt(8 - (hi - lo + 1), z3.Extract(hi, lo, c))
    b1 = z3.If(z3.ULT(c, 0x80), x(6, 0), z3.If(z3.ULT(c, 0x800), 0xC0 | x(10, 6), z3.If(z3.ULT(c, 0x10000), 0xE0 | x(15, 12), 0xF0 | x(20, 18))))
    b2 = z3.If(z3.ULT(c, 0x800), 0x80 | x(5, 0), z3.If(z3.ULT(c, 0x10000), 0x80 | x(11, 6), 0x80 | x(17, 12)))
    b3 = z3.If(z3.ULT(c, 0x10000), 0x80 | x(5, 0), 0x80 | x(11, 6))
    b4 = 0x80 | x(5, 0)
    return [b1, b2, b3, b4]


def m_encode_utf8(ex, callee, args, ret_ty, frame):
    # writes the encoding into the caller's buffer (used by the bytes literal) and returns the
    # encoded character as a one-character text (used by the number path)
    c = args[0].bv
    buf = models.deref(ex, args[1]) if len(args) > 1 else None
    if isinstance(buf, VSeq) and isinstance(buf.length, int) and buf.length >= 4:
        bs = utf8_bytes(c)
        for i in range(4):
            buf.items[i] = VInt(z3.simplify(bs[i]), False)
    return VRef(ex.heap(text(ex, [c]), "utf8"), (), True)


def m_len_utf8(ex, callee, args, ret_ty, frame):
    return VInt(utf8_len(args[0].bv), False)


def m_index_range_to(ex, callee, args, ret_ty, frame):
    arr = models.deref(ex, args[0])
    rng = args[1]
    end = rng.fields[0] if isinstance(rng, VStruct) else rng
    k = end.concrete()
    if k is None:
        k = 1 + ex.branch([(str(j), end.bv == j) for j in range(1, 5)], "utf8.len")
    return VRef(ex.heap(VSeq(arr.elem_ty, k, [vcopy(x) for x in arr.items[:k]], ex.new_vid()), "subslice"))


def m_vec_into_bytes(ex, callee, args, ret_ty, frame):
    return VStruct("CelBytes", [args[0]], ex.new_vid())


def digit_value(c, radix):
    """(is a digit of that radix, its value) as z3 terms"""
    dec = z3.And(z3.UGE(c, C("0")), z3.ULE(c, C("9")))
    lo = z3.And(z3.UGE(c, C("a")), z3.ULE(c, C("z")))
    up = z3.And(z3.UGE(c, C("A")), z3.ULE(c, C("Z")))
    val = z3.If(dec, c - C("0"), z3.If(lo, c - C("a") + 10, z3.If(up, c - C("A") + 10, z3.BitVecVal(99, 32))))
    return z3.ULT(val, radix), val


def m_is_digit(ex, callee, args, ret_ty, frame):
    r = args[1].concrete()
    ok, _ = digit_value(args[0].bv, r)
    return VBool(ok)


def m_is_ascii_hexdigit(ex, callee, args, ret_ty, frame):
    c = models.deref(ex, args[0])
    ok, _ = digit_value(c.bv, 16)
    return VBool(ok)


def m_from_u32(ex, callee, args, ret_ty, frame):
    u = args[0].bv
    valid = z3.Or(z3.ULT(u, 0xD800), z3.And(z3.UGE(u, 0xE000), z3.ULT(u, 0x110000)))
    rt = norm_ty(ret_ty) if ret_ty else "Option<char>"
    if ex.branch_bool(valid, "char::from_u32"):
        return models.mk_option(ex, rt, VInt(u, False))
    return models.mk_option(ex, rt)


def m_from_str_radix(ex, callee, args, ret_ty, frame):
    m = re.search(r"<impl (u8|u32|u64)>::from_str_radix$", callee)
    if not m:
        return NOT
    bits = {"u8": 8, "u32": 32, "u64": 64}[m.group(1)]
    s = chars_of(ex, args[0])
    radix = args[1].concrete()
    rt = norm_ty(ret_ty) if ret_ty else "Result"
    err = lambda: models.mk_result(ex, rt, err=VOpaque("ParseIntError", ex.new_vid()))
    if len(s) == 0:
        return err()
    # std accepts one leading '+'; the texts built by the tokenizer never start with one, but model it
    if len(s) > 1 and not ex.branch_bool(s[0] != C("+"), "from_str_radix.plus"):
        s = s[1:]
    W = WIDE
    acc = z3.BitVecVal(0, W)
    oks = []
    for c in s:
        ok, v = digit_value(c, radix)
        oks.append(ok)
        acc = acc * radix + z3.ZeroExt(W - 32, v)
    good = z3.And(oks + [z3.ULT(acc, z3.BitVecVal(1 << bits, W))])
    if ex.branch_bool(good, "from_str_radix.ok"):
        return models.mk_result(ex, rt, ok=VInt(z3.Extract(bits - 1, 0, acc), False))
    return err()


def m_parse_f64(ex, callee, args, ret_ty, frame):
    s = chars_of(ex, args[0])
    r = ex.fresh(ret_ty, "parse_f64")
    ex.trace.append(Event("parse_f64", [], r, {"text": s}))
    ex.used["havocked"].add("str::parse::<f64> (uninterpreted; the text it receives is compared)")
    return r


def m_collect_string(ex, callee, args, ret_ty, frame):
    it = args[0]
    if isinstance(it, VIter) and it.kind == "owned":
        return text(ex, [x.bv for x in it.seq.items[it.pos:]])
    return NOT


def m_option_map(ex, callee, args, ret_ty, frame):
    v = args[0]
    if not isinstance(v, VAdt):
        return NOT
    i = models.adt_variant(ex, v, "Option::map")
    rt = norm_ty(ret_ty) if ret_ty else "Option"
    if i == 0:
        return models.mk_option(ex, rt)
    r = ex.call_closure(args[1], [ex.adt_fields(v, 1)[0]])
    if r is None:
        return NOT
    return models.mk_option(ex, rt, r)


TOK_CFG = dict(
    inline=[],
    inline_default=True,
    keep_uninterpreted=[],
    opaque_types=("HashMap", "CelBytes", "DateTime", "Duration", "Arc"),
    models=[
        (r"^String::new$", m_string_new), (r"^String::with_capacity$", m_string_new), (r"^String::push$", m_string_push), (r"^String::is_empty$", m_string_is_empty),
        (r"^String::len$", m_string_len),
        (r"^<str as (ToOwned|ToString)>::(to_owned|to_string)$|^<char as ToString>::to_string$", m_to_owned),
        (r"^<String as PartialEq<&str>>::eq$|^<str as PartialEq>::eq$|^<String as PartialEq<str>>::eq$", m_str_eq),
        (r"<impl str>::contains::<&str>$", m_contains), (r"<impl str>::trim_start_matches::<&str>$", m_trim_start),
        (r"<impl str>::chars$", m_chars), (r"^<Chars as Iterator>::next$", m_chars_next),
        (r"<impl char>::encode_utf8$", m_encode_utf8), (r"<impl char>::len_utf8$", m_len_utf8),
        (r"^<\[u8; 4\] as Index<RangeTo<usize>>>::index$", m_index_range_to), (r"^<Vec<u8> as Into<CelBytes>>::into$", m_vec_into_bytes), (r"<impl char>::is_digit$", m_is_digit), (r"<impl char>::is_ascii_hexdigit$", m_is_ascii_hexdigit), (r"<impl char>::from_u32$", m_from_u32),
        (r"from_str_radix$", m_from_str_radix), (r"<impl str>::parse::<f64>$", m_parse_f64),
        (r"as Iterator>::collect::<String>$", m_collect_string), (r"^Option(::)?(<.*>)?::map::", m_option_map),
    ],
    seq_bound=8, loop_bound=40, max_call_depth=16, solver_timeout_ms=120000,
)


def valid_char(c):
    return z3.Or(z3.ULT(c, 0xD800), z3.And(z3.UGE(c, 0xE000), z3.ULT(c, 0x110000)))


def make_input(template):
    """template: list of items - a python str (fixed characters) or ('sym', n) for n symbolic characters
    or ('symlen', lo, hi, pred) for a symbolic number lo..=hi of characters constrained by pred"""
    def make_args(ex, func):
        terms, syms = [], []
        for item in template:
            if isinstance(item, str):
                terms += [C(ch) for ch in item]
            elif item[0] == "sym":
                for _ in range(item[1]):
                    c = z3.BitVec(ex.fresh_name("ch"), 32)
                    ex.assume(valid_char(c))
                    if len(item) > 2:
                        ex.assume(item[2](c))
                    terms.append(c)
                    syms.append(c)
            elif item[0] == "symlen":
                _, lo, hi, pred = item
                nv = z3.BitVec(ex.fresh_name("nchars"), 64)
                k = lo + ex.branch([(str(j), nv == j) for j in range(lo, hi + 1)], "nchars")
                for _ in range(k):
                    c = z3.BitVec(ex.fresh_name("ch"), 32)
                    ex.assume(valid_char(c))
                    ex.assume(pred(c))
                    terms.append(c)
                    syms.append(c)
        inp = VRef(ex.heap(text(ex, terms), "input"))
        P = ex.P
        with_input = find_func(P, "with_input", "StringTokenizer")
        tok = ex.run_function(with_input, [inp])
        ex.notes.update(input=terms, syms=syms)
        return [VRef(ex.heap(tok, "tokenizer"), (), True)]
    return make_args


# ----------------------------------------------------------------------------- reference: what the text spells
class Outside(Exception):
    pass


def is_dec(A, c):
    return A.ask(z3.And(z3.UGE(c, C("0")), z3.ULE(c, C("9"))))


def is_hex(A, c):
    ok, _ = digit_value(c, 16)
    return A.ask(ok)


def is_one_of(A, c, chars):
    return A.ask(z3.Or([c == C(x) for x in chars]))


def fold(digs, radix):
    W = WIDE
    acc = z3.BitVecVal(0, W)
    for c in digs:
        _, v = digit_value(c, radix)
        acc = acc * radix + z3.ZeroExt(W - 32, v)
    return acc


def ref_number(A, s):
    """-> ('int'|'uint', 192-bit value term) | ('float', text terms) ; raises Outside for texts
    that are not one well-formed numeric literal"""
    n = len(s)
    if n == 0 or not is_dec(A, s[0]):
        raise Outside()
    # hexadecimal: 0x / 0X followed by at least one hex digit, optional u
    if n >= 3 and A.ask(s[0] == C("0")) and is_one_of(A, s[1], "xX"):
        body = s[2:]
        unsigned = False
        if len(body) >= 2 and is_one_of(A, body[-1], "uU"):
            body, unsigned = body[:-1], True
        if not body or not all(is_hex(A, c) for c in body):
            raise Outside()
        return ("uint" if unsigned else "int", fold(body, 16))
    i = 0
    while i < n and is_dec(A, s[i]):
        i += 1
    if i == n:
        return ("int", fold(s, 10))
    if i == n - 1 and is_one_of(A, s[i], "uU"):
        return ("uint", fold(s[:i], 10))
    # doubles: digits '.' digits [exp] | digits exp
    j = i
    seen = False
    if A.ask(s[j] == C(".")):
        j += 1
        k = j
        while j < n and is_dec(A, s[j]):
            j += 1
        if j == k:
            raise Outside()
        seen = True
    if j < n and is_one_of(A, s[j], "eE"):
        j += 1
        if j < n and is_one_of(A, s[j], "+-"):
            j += 1
        k = j
        while j < n and is_dec(A, s[j]):
            j += 1
        if j == k:
            raise Outside()
        seen = True
    if seen and j == n:
        return ("float", s)
    raise Outside()


SIMPLE_ESC = {"a": 7, "b": 8, "f": 12, "n": 10, "r": 13, "t": 9, "v": 11, "\\": 92, "'": 39, '"': 34}


def ref_string(A, s):
    """text between the quotes -> list of char terms, ('error',) for malformed/invalid escapes;
    Outside for shapes the statement does not speak about"""
    if len(s) < 2:
        raise Outside()
    q = s[0]
    if not is_one_of(A, q, "\"'"):
        raise Outside()
    out, i, n = [], 1, len(s)
    while True:
        if i >= n:
            return ("error",)  # unterminated
        c = s[i]
        if A.ask(c == q):
            if i != n - 1:
                raise Outside()  # more text after the literal
            return ("string", out)
        if not A.ask(c == C("\\")):
            out.append(c)
            i += 1
            continue
        if i + 1 >= n:
            return ("error",)
        e = s[i + 1]
        i += 2
        done = False
        for ch, code in SIMPLE_ESC.items():
            if A.ask(e == C(ch)):
                out.append(z3.BitVecVal(code, 32))
                done = True
                break
        if done:
            continue
        width = None
        if is_one_of(A, e, "xX"):
            width = 2
        elif A.ask(e == C("u")):
            width = 4
        elif A.ask(e == C("U")):
            width = 8
        if width is not None:
            if i + width > n:
                return ("error",)
            digs = s[i:i + width]
            if not all(is_hex(A, d) for d in digs):
                return ("error",)
            v = z3.Extract(31, 0, fold(digs, 16))
            if not A.ask(valid_char(v)):
                return ("error",)
            out.append(v)
            i += width
            continue
        if is_dec(A, e):
            if i + 2 > n:
                return ("error",)
            digs = [e] + s[i:i + 2]
            okd = all(A.ask(z3.And(z3.UGE(d, C("0")), z3.ULE(d, C("7")))) for d in digs)
            if not okd:
                return ("error",)
            v = z3.Extract(31, 0, fold(digs, 8))
            if A.ask(z3.UGT(v, 0o377)):
                raise Outside()  # \400..\777: the statement says "three-digit octal" without a range
            out.append(v)
            i += 2
            continue
        raise Outside()  # unknown escape letters


def ref_raw(A, s):
    """r"..." : every character up to the closing quote stands for itself (no escapes)"""
    if len(s) < 3 or not A.ask(s[0] == C("r")) or not is_one_of(A, s[1], "\"'"):
        raise Outside()
    q, out, i = s[1], [], 2
    while True:
        if i >= len(s):
            return ("error",)
        if A.ask(s[i] == q):
            if i != len(s) - 1:
                raise Outside()
            return ("string", out)
        out.append(s[i])
        i += 1


def ref_bytes(A, s):
    """b"..." -> list of 8-bit terms | ('error',) ; Outside for shapes the statement does not cover"""
    if len(s) < 3 or not A.ask(s[0] == C("b")) or not is_one_of(A, s[1], "\"'"):
        raise Outside()
    q, out, i, n = s[1], [], 2, len(s)
    while True:
        if i >= n:
            return ("error",)
        c = s[i]
        if A.ask(c == q):
            if i != n - 1:
                raise Outside()
            return ("bytes", out)
        if not A.ask(c == C("\\")):
            # a plain character contributes its UTF-8 encoding
            k = None
            for j in range(1, 5):
                if A.ask(utf8_len(c) == j):
                    k = j
                    break
            out += [z3.simplify(b) for b in utf8_bytes(c)[:k]]
            i += 1
            continue
        if i + 1 >= n:
            return ("error",)
        e = s[i + 1]
        i += 2
        done = False
        for ch, code in SIMPLE_ESC.items():
            if A.ask(e == C(ch)):
                out.append(z3.BitVecVal(code, 8))
                done = True
                break
        if done:
            continue
        if is_one_of(A, e, "xX"):
            if i + 2 > n:
                return ("error",)
            digs = s[i:i + 2]
            if not all(is_hex(A, d) for d in digs):
                return ("error",)
            out.append(z3.Extract(7, 0, fold(digs, 16)))
            i += 2
            continue
        if is_dec(A, e):
            if i + 2 > n:
                return ("error",)
            digs = [e] + s[i:i + 2]
            if not all(A.ask(z3.And(z3.UGE(d, C("0")), z3.ULE(d, C("7")))) for d in digs):
                return ("error",)
            v = fold(digs, 8)
            if A.ask(z3.UGT(v, 0o377)):
                return ("error",)  # a byte cannot hold it
            out.append(z3.Extract(7, 0, v))
            i += 2
            continue
        raise Outside()


def token_of(ex, ret):
    """(kind, payload, range) of Ok(Some(TokenWithLoc)), ('none',), ('error', loc)"""
    if not isinstance(ret.discr, int):
        return ("?",)
    if ret.discr == 1:
        return ("error", ret.fields[1][0])
    opt = ret.fields[0][0]
    if opt.discr == 0:
        return ("none",)
    twl = opt.fields[1][0]
    tok, loc = twl.fields[0], twl.fields[1]
    name = ex.adt_variants(tok.ty)[tok.discr][0]
    return (name, tok.fields.get(tok.discr, []), loc)


def check_token(kind):
    def check(res, V):
        ex = res.ex
        if res.outcome == "panic":
            V.check(ex, "the tokenizer reports a syntax error instead of panicking", False, detail=res.msg, scenario=scen(ex))
            return
        if res.outcome != "return":
            V.inconclusive.append(f"{res.outcome}: {res.msg}")
            return
        s = ex.notes["input"]
        got = token_of(ex, res.ret)

        def ref(A):
            try:
                return ref_number(A, s) if kind == "number" else (ref_bytes(A, s) if kind == "bytes" else (ref_raw(A, s) if kind == "raw" else ref_string(A, s)))
            except Outside:
                return ("outside",)
        for assumed, exp in run_reference(ex, ref):
            V.witness(exp[0])
            if exp[0] == "outside":
                continue
            sc = scen(ex)
            if exp[0] in ("int", "uint"):
                limit = 1 << 64
                fits = z3.ULT(exp[1], z3.BitVecVal(limit, WIDE))
                want = "IntLit" if exp[0] == "int" else "UIntLit"
                if got[0] == want:
                    v = got[1][0].bv
                    # the radix fold of the model and of the reference are the same function: when the
                    # tokenizer handed exactly the literal's digits to the parser the two terms are
                    # identical and no wide multiplication has to be bit-blasted
                    if z3.eq(z3.simplify(v), z3.simplify(z3.Extract(63, 0, exp[1]))):
                        eqv = z3.BoolVal(True)
                    else:
                        eqv = z3.ZeroExt(WIDE - 64, v) == exp[1]
                    V.check(ex, f"{want} carries the value the digits spell", z3.And(fits, eqv), assumed,
                            detail=lambda: f"token {got[0]}({got[1]}) for input {s}", scenario=sc)
                elif got[0] == "error":
                    V.check(ex, "only literals that do not fit the type are rejected", z3.Not(fits), assumed, detail=lambda: f"rejected: {s}", scenario=sc)
                else:
                    V.check(ex, f"a well-formed {exp[0]} literal becomes an {want} token", False, assumed, detail=lambda: f"got {got[0]} for {s}", scenario=sc)
            elif exp[0] == "float":
                pe = [e for e in ex.trace if e.name == "parse_f64"]
                ok = got[0] in ("FloatLit", "error") and len(pe) == 1 and len(pe[0].extra["text"]) == len(s)
                same = z3.And([a == b for a, b in zip(pe[0].extra["text"], s)] + [z3.BoolVal(True)]) if ok else z3.BoolVal(False)
                V.check(ex, "a double literal is parsed from exactly its own text", same, assumed, detail=lambda: f"got {got[0]}, parse events {pe!r}", scenario=sc)
                if ok and got[0] == "FloatLit":
                    V.check(ex, "FloatLit carries the parsed value", getattr(got[1][0], "vid", 0) == getattr(ex.adt_fields(pe[0].ret, 0)[0], "vid", 1), assumed, scenario=sc)
                elif ok:
                    V.check(ex, "a double literal is rejected only when parsing fails", is_variant(ex, pe[0].ret, "Err"), assumed, scenario=sc)
            elif exp[0] == "string":
                if got[0] != "StringLit":
                    V.check(ex, "a well-formed string literal becomes a StringLit token", False, assumed, detail=lambda: f"got {got[0]} for {s}", scenario=sc)
                else:
                    t = got[1][0]
                    same = isinstance(t, VSeq) and t.length == len(exp[1])
                    V.check(ex, "StringLit has exactly the characters the literal spells",
                            z3.And([a.bv == b for a, b in zip(t.items, exp[1])] + [z3.BoolVal(True)]) if same else z3.BoolVal(False), assumed,
                            detail=lambda: f"token text {t!r}, expected {exp[1]}", scenario=sc)
            elif exp[0] == "bytes":
                if got[0] != "ByteStringLit":
                    V.check(ex, "a well-formed bytes literal becomes a ByteStringLit token", False, assumed, detail=lambda: f"got {got[0]} for {s}", scenario=sc)
                else:
                    t = got[1][0]
                    t = t.fields[0] if isinstance(t, VStruct) else t
                    same = isinstance(t, VSeq) and t.length == len(exp[1])
                    V.check(ex, "ByteStringLit has exactly the bytes the literal spells",
                            z3.And([a.bv == b for a, b in zip(t.items, exp[1])] + [z3.BoolVal(True)]) if same else z3.BoolVal(False), assumed,
                            detail=lambda: f"token bytes {t!r}, expected {exp[1]}", scenario=sc)
            elif exp[0] == "error":
                V.check(ex, "malformed escapes and invalid code points are rejected", got[0] == "error", assumed, detail=lambda: f"got {got[0]} {got[1:]} for {s}", scenario=sc)
            # C18: a syntax error points inside the source or immediately at the end of one of its lines
            if got[0] == "error" and isinstance(got[1], VStruct) and got[1].fields and isinstance(got[1].fields[0], VStruct):
                TPM = __import__("t_parse")
                TPM.learn_loc_layout(ex)
                el = got[1].fields[0]
                L, Cc = el.fields[TPM.LOC_IDX["line"]].bv, el.fields[TPM.LOC_IDX["col"]].bv
                line, col = z3.BitVecVal(0, 64), z3.BitVecVal(0, 64)
                for ch in s:
                    nl = ch == C("\n")
                    line, col = z3.If(nl, line + 1, line), z3.If(nl, z3.BitVecVal(0, 64), col + 1)
                inside = z3.And(z3.ULE(L, line), z3.Implies(L == line, z3.ULE(Cc, col)), z3.ULE(Cc, len(s)))
                V.check(ex, "a syntax error reports a position inside the source or at the end of one of its lines", inside, assumed,
                        detail=lambda: f"error at {el!r} for {len(s)} characters", scenario=sc)
            # C18: the token's span is the whole input, on line 0
            if got[0] not in ("error", "none", "?") and exp[0] != "error":
                loc = got[2]
                st, en = loc.fields[0], loc.fields[1]
                # end of the literal in (line, column): columns count characters and restart after a newline
                line, col = z3.BitVecVal(0, 64), z3.BitVecVal(0, 64)
                for ch in s:
                    nl = ch == C("\n")
                    line, col = z3.If(nl, line + 1, line), z3.If(nl, z3.BitVecVal(0, 64), col + 1)
                TPM = __import__("t_parse")
                TPM.learn_loc_layout(ex)
                il, ic = TPM.LOC_IDX["line"], TPM.LOC_IDX["col"]
                V.check(ex, "token span covers exactly the literal", z3.And(st.fields[il].bv == 0, st.fields[ic].bv == 0, en.fields[il].bv == line, en.fields[ic].bv == col), assumed,
                        detail=lambda: f"span {loc!r} for {len(s)} characters", scenario=sc)
    return check


def scen(ex):
    def build(model):
        cs = []
        for t in ex.notes["input"]:
            cs.append(model.eval(t, model_completion=True).as_long())
        return {"kind": "literal", "text": "".join(chr(c) for c in cs)}
    return build


def entry_next(P):
    c = P.trait_impls.get(("StringTokenizer", "Tokenizer", "next"), [])
    if len(c) != 1:
        raise KeyError("<StringTokenizer as Tokenizer>::next")
    return c[0]


DIG = lambda c: z3.And(z3.UGE(c, C("0")), z3.ULE(c, C("9")))
DIG19 = lambda c: z3.And(z3.UGE(c, C("1")), z3.ULE(c, C("9")))
ASCII = lambda c: z3.And(z3.UGE(c, 0x20), z3.ULT(c, 0x7f))
TARGETS = []


def add(name, template, kind, what, props=("C13", "C18"), tier="quick"):
    TARGETS.append(dict(name=name, tier=tier, props=list(props), func=entry_next, cfg=TOK_CFG, make_args=make_input(template), check=check_token(kind), what=what,
                        max_paths=60000, bounds={"input": str([t if isinstance(t, str) else t[:3] for t in template])}))


add("tok_number_short", [("sym", 1, DIG), ("symlen", 0, 3, ASCII)], "number", "numeric literals of 1..=4 printable ASCII characters starting with a digit: decimal, hex, u suffix, doubles")
add("tok_number_hex", ["0", ("sym", 1, lambda c: z3.Or(c == C("x"), c == C("X"))), ("symlen", 1, 2, ASCII), ("symlen", 0, 1, lambda c: z3.Or(c == C("u"), c == C("U")))], "number", "hexadecimal literals 0x.. with 1..=2 further characters and an optional u")
add("tok_number_edge", ["1844674407370955", ("sym", 4, DIG)], "number", "the 10000 decimal literals around u64::MAX (1844674407370955dddd): accepted up to 18446744073709551615, rejected beyond")
add("tok_number_edge_u", ["1844674407370955", ("sym", 4, DIG), "u"], "number", "the same with a u suffix")
add("tok_number_long", [("symlen", 17, 18, DIG19), ("sym", 2, DIG)], "number", "decimal literals of 19..=20 digits (the first 17..=18 digits non-zero): values up to and beyond u64::MAX", tier="thorough")
add("tok_string_plain", [("sym", 1, lambda c: z3.Or(c == C('"'), c == C("'"))), ("symlen", 0, 3, lambda c: z3.BoolVal(True))], "string", "quoted strings of 0..=3 arbitrary characters (incl. single-character escapes)")
add("tok_string_x", ['"\\x', ("sym", 2), '"'], "string", "\\xHH with arbitrary characters in the digit positions")
add("tok_string_u", ['"\\u', ("sym", 4, ASCII), '"'], "string", "\\uHHHH (surrogates are invalid)")
add("tok_string_U", ['"\\U', ("sym", 8, lambda c: z3.Or(DIG(c), z3.And(z3.UGE(c, C("a")), z3.ULE(c, C("g"))), z3.And(z3.UGE(c, C("A")), z3.ULE(c, C("G"))))), '"'], "string", "\\UHHHHHHHH (code points beyond 0x10FFFF and surrogates are invalid)")
add("tok_string_raw", ['r', ("sym", 1, lambda c: z3.Or(c == C('"'), c == C("'"))), ("symlen", 0, 3, lambda c: z3.BoolVal(True))], "raw", "raw strings of 0..=3 arbitrary characters: no escapes")
add("tok_bytes_plain", ['b"', ("symlen", 0, 2, lambda c: z3.BoolVal(True)), '"'], "bytes", "byte strings of 0..=2 arbitrary characters (UTF-8 encoded) incl. single-character escapes")
add("tok_bytes_x", ['b"\\x', ("sym", 2, ASCII), '"'], "bytes", "\\xHH in a byte string: the byte HH")
add("tok_bytes_octal", ['b"\\', ("sym", 3, ASCII), '"'], "bytes", "three-digit octal in a byte string: values above \\377 are rejected")
add("tok_string_octal", ['"\\', ("sym", 3, ASCII), '"'], "string", "three-digit octal escapes")
