"""Native confirmation of a counterexample of the grammar targets (t_grammar / t_parse).

The scenario is a concrete token sequence.  It is rendered as source text (one space between
tokens, so every token's columns are known), compiled and evaluated by the real library through
`mreplay parse`, and judged by oracles that do not depend on mirsym:

* the independent reference parser of t_grammar (same class, concrete tokens): acceptance, tree
  shape, operand/argument order, spans of every node against the token columns, parameters;
* evaluation: a small evaluator of the reference tree over ints and bools with CEL's lazy
  operators (absolute oracle where it is defined), the fully parenthesised rendering of the
  reference tree (must evaluate alike under every binding tried), and the literal/variable forms
  of the same expression (constant folding must be invisible)."""
import json

from t_grammar import RefParser, Reject, N, compare, variable_idents, show, OPNAME

TOKEN_TEXT = {"OrOr": "||", "AndAnd": "&&", "LessThan": "<", "LessEqual": "<=", "EqualEqual": "==", "NotEqual": "!=", "GreaterEqual": ">=", "GreaterThan": ">", "In": "in",
              "Add": "+", "Minus": "-", "Multiply": "*", "Divide": "/", "Mod": "%", "LParen": "(", "RParen": ")", "Question": "?", "Colon": ":", "Not": "!", "Dot": ".",
              "LBracket": "[", "RBracket": "]", "Comma": ",", "LBrace": "{", "RBrace": "}", "Null": "null", "Match": "match", "Case": "case"}
OP_TEXT = {"Add": "+", "Sub": "-", "Mul": "*", "Div": "/", "Mod": "%", "Lt": "<", "Le": "<=", "Eq": "==", "Ne": "!=", "Ge": ">=", "Gt": ">", "In": "in", "Or": "||", "And": "&&"}
LEVELS = ["Expr", "Or", "And", "Relation", "Addition", "Multiplication", "UnaryT"]
AST_OP = {"Add": "Add", "Sub": "Sub", "Mult": "Mul", "Div": "Div", "Mod": "Mod", "Lt": "Lt", "Le": "Le", "Eq": "Eq", "Ne": "Ne", "Ge": "Ge", "Gt": "Gt", "In": "In"}
I64 = (-(1 << 63), (1 << 63) - 1)


def words_of(tokens):
    out = []
    for t in tokens:
        if t[0] == "Ident":
            out.append(str(t[1]))
        elif t[0] == "IntLit":
            out.append(str(t[1]))
        elif t[0] == "StringLit":
            out.append('"' + str(t[1]) + '"')
        elif t[0] in TOKEN_TEXT:
            out.append(TOKEN_TEXT[t[0]])
        elif t[0] == "FStringLit":
            text = "f'"
            for kind, body in t[1]:
                if kind == "lit":
                    text += body
                else:
                    inner = words_of([tuple(x) for x in body])
                    if inner is None:
                        return None
                    text += "{" + " ".join(inner) + "}"
            out.append(text + "'")
        else:
            return None
    return out


def ref_tokens(tokens):
    """scenario tokens -> the reference parser's (kind, payload) list"""
    out = []
    for t in tokens:
        if t[0] == "FStringLit":
            out.append(("FStringLit", [(k, b if k == "lit" else ref_tokens([tuple(x) for x in b])) for k, b in t[1]]))
        else:
            out.append((t[0], t[1] if len(t) > 1 else None))
    return out


def all_idents(tokens):
    out = set()
    for t in tokens:
        if t[0] == "Ident":
            out.add(t[1])
        elif t[0] == "FStringLit":
            for k, b in t[1]:
                if k == "expr":
                    out |= all_idents([tuple(x) for x in b])
    return out


def columns(words):
    cols, c = [], 0
    for w in words:
        cols.append(((0, c), (0, c + len(w))))
        c += len(w) + 1
    return cols


def lay_out(words, layout):
    """source text that puts word i at (line, column) layout[i] (lines ascending), and the spans"""
    lines, cols = {}, []
    for w, (l, c) in zip(words, layout):
        cur = lines.get(l, "")
        if len(cur) > c:
            return None, None
        lines[l] = cur + " " * (c - len(cur)) + w
        cols.append(((l, c), (l, c + len(w))))
    return "\n".join(lines.get(l, "") for l in range(max(lines) + 1)), cols


# ----------------------------------------------------------------------------- native tree -> reference vocabulary
def span(n):
    return (tuple(n["loc"]["start"]), tuple(n["loc"]["end"]))


def walk(node, level, names, lits):
    """AstNode json at grammar level `level` -> N"""
    sp = span(node)
    inner = node["node"]
    out = walk_inner(inner, level, names, lits)
    out.setdefault("spans", []).append(sp)
    return out


def walk_inner(inner, level, names, lits):
    if level == "Expr":
        if "Ternary" in inner:
            t = inner["Ternary"]
            return N(k="cond", c=walk(t["condition"], "Or", names, lits), x=walk(t["true_clause"], "Or", names, lits), y=walk(t["false_clause"], "Expr", names, lits))
        if "Unary" in inner:
            return walk(inner["Unary"], "Or", names, lits)
        if "Match" in inner:
            m = inner["Match"]
            cases = []
            for c in m["cases"]:
                pn = c["node"]["pattern"]["node"]
                if isinstance(pn, dict) and "Cmp" in pn:
                    op = pn["Cmp"]["op"]["node"]
                    pat = N(k="cmp", op={"Neq": "Ne"}.get(op, op), e=walk(pn["Cmp"]["or"], "Or", names, lits))
                elif (isinstance(pn, dict) and "Any" in pn) or pn == "Any":
                    pat = N(k="any")
                else:
                    pat = N(k="type")
                cases.append(N(k="case", pat=pat, arm=walk(c["node"]["expr"], "Expr", names, lits)))
            return N(k="match", s=walk(m["condition"], "Expr", names, lits), cases=cases)
        return N(k="?" + next(iter(inner)))
    if level in ("Or", "And", "Relation", "Addition", "Multiplication"):
        nxt = LEVELS[LEVELS.index(level) + 1]
        if "Binary" in inner:
            b = inner["Binary"]
            op = {"Or": "Or", "And": "And"}.get(level) or AST_OP.get(b.get("op"), str(b.get("op")))
            return N(k="bin", op=op, l=walk(b["lhs"], level, names, lits), r=walk(b["rhs"], nxt, names, lits))
        return walk(inner["Unary"], nxt, names, lits)
    if level == "UnaryT":
        if "Member" in inner:
            return walk_member(inner["Member"], names, lits)
        for key, lst, kind in (("NotMember", "nots", "not"), ("NegMember", "negs", "neg")):
            if key in inner:
                depth, cur = 0, inner[key][lst]
                while isinstance(cur["node"], dict) and "List" in cur["node"]:
                    depth += 1
                    cur = cur["node"]["List"]["tail"]
                return N(k=kind, n=depth, x=walk_member(inner[key]["member"], names, lits))
    return N(k="?" + str(inner)[:30])


def walk_member(node, names, lits):
    sp = span(node)
    m = node["node"]
    prim = walk_primary(m["primary"], names, lits)
    if not m["member"]:
        prim.setdefault("spans", []).append(sp)
        return prim
    elems = []
    for e in m["member"]:
        en = e["node"]
        if "MemberAccess" in en:
            idn = en["MemberAccess"]["ident"]
            elems.append(N(k="access", name=names.get(idn["node"], idn["node"]), spans=[span(e)], ident_span=span(idn)))
        elif "Call" in en:
            lst = en["Call"]["call"]
            elems.append(N(k="call", args=[walk(a, "Expr", names, lits) for a in lst["node"]["exprs"]], spans=[span(e), span(lst)]))
        elif "ArrayAccess" in en:
            elems.append(N(k="index", e=walk(en["ArrayAccess"]["access"], "Expr", names, lits), spans=[span(e)]))
        else:
            elems.append(N(k="?", spans=[span(e)]))
    return N(k="member", prim=prim, elems=elems, spans=[sp])


def walk_primary(node, names, lits):
    sp = span(node)
    p = node["node"]
    if isinstance(p, dict) and "Ident" in p:
        out = N(k="ident", name=names.get(p["Ident"], p["Ident"]))
    elif isinstance(p, dict) and "Parens" in p:
        out = N(k="paren", x=walk(p["Parens"], "Expr", names, lits))
    elif isinstance(p, dict) and "ListConstruction" in p:
        lst = p["ListConstruction"]
        out = N(k="list", items=[walk(a, "Expr", names, lits) for a in lst["node"]["exprs"]], spans=[span(lst)])
    elif isinstance(p, dict) and "ObjectInit" in p:
        oi = p["ObjectInit"]
        inits = [(walk(i["node"]["key"], "Expr", names, lits), walk(i["node"]["value"], "Expr", names, lits), span(i)) for i in oi["node"]["inits"]]
        out = N(k="map", inits=[(a, b) for a, b, _ in inits], init_spans=[s for _, _, s in inits], spans=[span(oi)])
    elif isinstance(p, dict) and "Literal" in p and isinstance(p["Literal"], dict) and "FStringList" in p["Literal"]:
        out = N(k="fstr", segs=[("lit" if "Lit" in sg else "expr", None) for sg in p["Literal"]["FStringList"]])
    elif isinstance(p, dict) and "Literal" in p:
        # identify the literal by its position (the columns of the token it was read from)
        out = N(k="lit", tok=lits.get(sp), what=str(p["Literal"])[:30])
    else:
        out = N(k="?" + str(p)[:30])
    out.setdefault("spans", []).append(sp)
    return out


# ----------------------------------------------------------------------------- a small evaluator (absolute oracle)
class Unknown(Exception):
    pass


ERR = ("err",)


def truthy(v):
    if v == ERR or v == ("null",):
        return False
    return bool(v[1])


def mini_eval(n, env, toks):
    """ints and bools only; ('int', v) | ('bool', b) | ERR; raises Unknown outside its domain"""
    k = n["k"]
    if k == "ident":
        nm = n.name
        return env[nm] if nm in env else ERR
    if k == "lit":
        if toks[n.tok][0] != "IntLit":
            raise Unknown("a literal that is not an integer")
        return ("int", toks[n.tok][1])
    if k == "paren":
        return mini_eval(n.x, env, toks)
    if k == "not":
        v = mini_eval(n.x, env, toks)
        for _ in range(n.n):
            v = v if v == ERR else ("bool", not truthy(v))
        return v
    if k == "neg":
        v = mini_eval(n.x, env, toks)
        for _ in range(n.n):
            if v == ERR:
                continue
            if v[0] != "int":
                raise Unknown("negation of a non-int")
            v = ("int", -v[1]) if I64[0] <= -v[1] <= I64[1] else ERR
        return v
    if k == "match":
        sv = mini_eval(n.s, env, toks)
        for c in n.cases:
            if c.pat["k"] == "any":
                return mini_eval(c.arm, env, toks)
            r = mini_eval(N(k="bin", op=c.pat.op, l=N(k="__val", v=sv), r=c.pat.e), env, toks)
            if r != ERR and truthy(r):
                return mini_eval(c.arm, env, toks)
        return ("null",)
    if k == "__val":
        return n.v
    if k == "cond":
        c = mini_eval(n.c, env, toks)
        if c == ERR:
            return ERR
        return mini_eval(n.x if truthy(c) else n.y, env, toks)
    if k == "bin" and n.op == "Or":
        a = mini_eval(n.l, env, toks)
        if truthy(a):
            return ("bool", True)
        b = mini_eval(n.r, env, toks)
        if truthy(b):
            return ("bool", True)
        return ERR if ERR in (a, b) else ("bool", False)
    if k == "bin" and n.op == "And":
        a = mini_eval(n.l, env, toks)
        if a == ERR:
            return ERR
        if not truthy(a):
            return ("bool", False)
        b = mini_eval(n.r, env, toks)
        return ERR if b == ERR else ("bool", truthy(b))
    if k == "bin":
        a = mini_eval(n.l, env, toks)
        b = mini_eval(n.r, env, toks)
        if ERR in (a, b):
            return ERR
        if a[0] != "int" or b[0] != "int":
            if n.op in ("Eq", "Ne") and a[0] == b[0]:
                return ("bool", (a[1] == b[1]) == (n.op == "Eq"))
            raise Unknown("operator on non-ints")
        x, y = a[1], b[1]
        if n.op in ("Add", "Sub", "Mul"):
            r = {"Add": x + y, "Sub": x - y, "Mul": x * y}[n.op]
            return ("int", r) if I64[0] <= r <= I64[1] else ERR
        if n.op in ("Div", "Mod"):
            if y == 0:
                return ERR
            q = abs(x) // abs(y) * (1 if (x >= 0) == (y >= 0) else -1)
            r = q if n.op == "Div" else x - q * y
            return ("int", r) if I64[0] <= r <= I64[1] else ERR
        if n.op in ("Lt", "Le", "Gt", "Ge", "Eq", "Ne"):
            return ("bool", {"Lt": x < y, "Le": x <= y, "Gt": x > y, "Ge": x >= y, "Eq": x == y, "Ne": x != y}[n.op])
    raise Unknown(k + " " + str(n.get("op")))


def render(n, toks, names, full=True):
    """source text of the reference tree, every composite wrapped in parentheses"""
    k = n["k"]

    def w(s):
        return "(" + s + ")" if full else s
    if k == "ident":
        return names[n.name]
    if k == "lit":
        return str(toks[n.tok][1]) if toks[n.tok][0] == "IntLit" else '"' + str(toks[n.tok][1]) + '"' 
    if k == "paren":
        return "(" + render(n.x, toks, names, full) + ")"
    if k in ("not", "neg"):
        s = render(n.x, toks, names, full)
        for _ in range(n.n):
            s = w(("!" if k == "not" else "-") + s)
        return s
    if k == "cond":
        return w(f"{render(n.c, toks, names, full)} ? {render(n.x, toks, names, full)} : {render(n.y, toks, names, full)}")
    if k == "bin":
        return w(f"{render(n.l, toks, names, full)} {OP_TEXT[n.op]} {render(n.r, toks, names, full)}")
    if k == "list":
        return "[" + ", ".join(render(a, toks, names, full) for a in n["items"]) + "]"
    if k == "map":
        return "{" + ", ".join(f"{render(a, toks, names, full)}: {render(b, toks, names, full)}" for a, b in n.inits) + "}"
    if k == "match":
        cs = ", ".join("case " + ("_" if c.pat["k"] == "any" else OP_TEXT[c.pat.op] + " " + render(c.pat.e, toks, names, full)) + ": " + render(c.arm, toks, names, full) for c in n.cases)
        return w("match " + render(n.s, toks, names, full) + " { " + cs + " }")
    if k == "member":
        s = render(n.prim, toks, names, full)
        for e in n.elems:
            if e["k"] == "access":
                s += "." + names[e.name]
            elif e["k"] == "index":
                s += "[" + render(e.e, toks, names, full) + "]"
            else:
                s += "(" + ", ".join(render(a, toks, names, full) for a in e.args) + ")"
        return s
    raise Unknown(k)


def cls(res):
    """comparable outcome of a native evaluation"""
    if res is None:
        return ("none",)
    if "panic" in res:
        return ("panic",)
    if "ok" in res:
        return ("ok", res["ok"])
    return ("err", res.get("err") if res.get("err") in ("Binding", "Attribute") else "other")


def show_mini(v):
    if v == ERR:
        return "a failure"
    if v == ("null",):
        return "Null"
    return f"Int({v[1]})" if v[0] == "int" else f"Bool({'true' if v[1] else 'false'})"


def variants(tokens):
    """the scenario's token sequence, and the same with a zero divisor: a constant that fails is what
    the laziness of `||`, `&&`, `?:` has to be confronted with, and the solver's model need not
    pick one"""
    out = [tokens]
    for i in range(1, len(tokens)):
        if tokens[i][0] == "IntLit" and tokens[i - 1][0] in ("Divide", "Mod") and tokens[i][1] != 0:
            out.append(tokens[:i] + [("IntLit", 0)] + tokens[i + 1:])
    return out


def replay_grammar(run, exe, failures):
    tried, seen = [], set()
    work = []
    for f in failures:
        sc = f.get("scenario")
        if not sc or sc.get("kind") not in ("grammar", "tokens"):
            continue
        for v in variants([tuple(t) for t in sc["tokens"]]):
            work.append((f, sc, v))
    for f, sc, tokens in work:
        words = words_of(tokens)
        if not words:
            continue
        src = " ".join(words)
        cols = columns(words)
        if sc.get("layout"):
            # identifiers and literals may be wider than the template's two columns: spread the layout
            wide = max(len(w) for w in words) + 1
            src2, cols2 = lay_out(words, [(l, c * wide) for l, c in sc["layout"]])
            if src2 is not None:
                src, cols = src2, cols2
        if src in seen:
            continue
        seen.add(src)
        # reference parse (identifiers are their own names here)
        rtoks = ref_tokens(tokens)
        p = RefParser(rtoks)
        try:
            want, used = p.expr(), None
            used = p.p
            if used != len(rtoks):
                want = None         # trailing tokens: a whole program must be one expression
        except Reject:
            want = None
        idents = sorted(all_idents(tokens) - {"_"})
        rec = {"label": f["label"], "source": src}
        tried.append(rec)
        bad = check_one(run, exe, src, tokens, rtoks, cols, want, idents, rec, words)
        if bad:
            rec["reproduced"] = True
            return {"status": "reproduced", "summary": f"`{src}`: {bad}", "attempts": tried}
    ran = any("native" in t for t in tried)
    return {"status": "not_reproduced" if ran else "unavailable", "summary": "the native parser and evaluator agree with the reference on every concrete token sequence" if ran else "no scenario could be made concrete",
            "attempts": tried}


def bindings_for(idents):
    """a handful of bindings: distinct small ints, zeros, bools, and each variable left unbound"""
    out = []
    base = {n: ("int", i + 2) for i, n in enumerate(idents)}
    out.append(base)
    out.append({n: ("int", 0) for n in idents})
    out.append({n: ("int", (i % 2)) for i, n in enumerate(idents)})
    out.append({n: ("int", ((i + 1) % 2) * 7) for i, n in enumerate(idents)})
    out.append({n: ("bool", i % 2 == 0) for i, n in enumerate(idents)})
    out.append({n: ("bool", i % 2 == 1) for i, n in enumerate(idents)})
    out.append({n: ("int", -(i + 3)) for i, n in enumerate(idents)})
    for skip in idents:
        out.append({n: v for n, v in base.items() if n != skip})
        out.append({n: ("int", 0) for n in idents if n != skip})
    return out


def to_params(env):
    return {n: (v[1] if v[0] == "int" else bool(v[1])) for n, v in env.items()}


def check_one(run, exe, src, tokens, rtoks, cols, want, idents, rec, words):
    envs = bindings_for(idents)
    reqs = [{"source": src, "params": to_params(e)} for e in envs]
    out, why = run(exe, "parse", reqs)
    if out is None:
        rec["skipped"] = why
        return None
    first = out[0]
    rec["native"] = {k: first.get(k) for k in ("error", "params", "result", "debug")}
    if any("panic" in o for o in out):
        return "the compiler or the VM panicked"
    if want is None:
        if "error" not in first:
            return "the grammar rejects this sequence, the parser accepted it"
        return None
    if "error" in first:
        return f"a well-formed expression was rejected: {first.get('debug')}"
    # ---- tree, spans, parameters
    names = {n: n for n in idents}
    lits = {cols[i]: i for i, t in enumerate(tokens) if t[0] in ("IntLit", "StringLit")}
    got = walk(first["ast"], "Expr", names, lits)
    faults = {"shape": [], "span": [], "argorder": []}
    compare(got, want, faults, cols=cols)
    rec["grammar"] = show(want)
    if faults["shape"]:
        return f"syntax tree differs from the grammar's {show(want)}: {faults['shape'][0]}"
    if faults["argorder"]:
        return faults["argorder"][0]
    if faults["span"]:
        return f"span: {faults['span'][0]}"
    must = set(variable_idents(want, []))
    params = set(first.get("params") or [])
    if not must <= params:
        return f"parameters {sorted(params)} miss the variable(s) {sorted(must - params)}"
    if not params <= set(idents) | {"_"}:
        return f"parameters {sorted(params)} contain names that are not in the source"
    # ---- evaluation: absolute oracle where defined
    for env, o in zip(envs, out):
        try:
            exp = mini_eval(want, env, rtoks)
        except Unknown:
            continue
        except RecursionError:
            continue
        got_c = cls(o.get("result"))
        ok = (got_c[0] == "err") if exp == ERR else (got_c == ("ok", show_mini(exp)))
        if not ok:
            return f"with {to_params(env)} it evaluates to {o.get('result')}, CEL's semantics give {show_mini(exp)}"
    # ---- evaluation: the fully parenthesised form must agree
    try:
        full = render(want, rtoks, names, True)
    except Unknown:
        full = None
    if full and full != " ".join(words):
        out2, why = run(exe, "parse", [{"source": full, "params": to_params(e)} for e in envs])
        if out2 is not None:
            for env, a, b in zip(envs, out, out2):
                if "error" in b:
                    break
                if cls(a.get("result")) != cls(b.get("result")):
                    return f"with {to_params(env)} it evaluates to {a.get('result')}, its fully parenthesised form `{full}` to {b.get('result')}"
    # ---- constant folding is invisible: literal <-> variable forms
    lit_idx = [i for i, t in enumerate(tokens) if t[0] == "IntLit"]
    forms = []
    if lit_idx:
        # literals become variables bound to the same value
        ws, extra = list(words), {}
        for j, i in enumerate(lit_idx):
            nm = f"lit_{j}"
            ws[i] = nm
            extra[nm] = ("int", tokens[i][1])
        forms.append((" ".join(ws), extra, None))
    ws = list(words)
    for env in envs[:4]:
        if idents and all(n in env and env[n][0] == "int" and env[n][1] >= 0 for n in idents):
            prim_pos = [i for i, t in enumerate(tokens) if t[0] == "Ident" and t[1] != "_" and not (i > 0 and tokens[i - 1][0] == "Dot") and not (i + 1 < len(tokens) and tokens[i + 1][0] == "LParen")]
            ws2 = list(ws)
            for i in prim_pos:
                ws2[i] = str(env[tokens[i][1]][1])
            forms.append((" ".join(ws2), {}, env))
    for text, extra, only_env in forms:
        use = [only_env] if only_env is not None else envs
        outs, why = run(exe, "parse", [{"source": text, "params": to_params({**e, **extra})} for e in use])
        if outs is None:
            continue
        ref = [out[envs.index(e)] for e in use]
        for env, a, b in zip(use, ref, outs):
            if "error" in b:
                return f"the form `{text}` (a literal for a variable or the reverse) is rejected: {b.get('debug')}"
            if cls(a.get("result")) != cls(b.get("result")):
                return f"with {to_params(env)} it evaluates to {a.get('result')}, the form `{text}` with literals and variables exchanged to {b.get('result')}"
    return None
