"""Targets: the comprehension macros and has()/coalesce() (properties C07, C08).

What is executed symbolically is the MIR of all_impl, exists_impl, exists_one_impl, filter_impl
(+ filter_list / filter_map), map_impl (+ map_list / map_map), reduce_impl, has_impl and
coalesce_impl.  The body evaluation `Interpreter::run_raw` is *havocked*: it returns an
arbitrary `Result<CelValue, CelError>` per call (so every combination of "body yields a truthy
value / a falsy value / fails with error kind k" is covered for every element), `is_truthy` is
an uninterpreted predicate of the value, `eval_ident`, `setup_context`, `bind_param`,
`Interpreter::new` are havocked and logged.  Lists have a symbolic length 0..=LIST_BOUND.

The specification is the defining fold of each macro, written in `ref_*` below from the
property statement, and compared with (a) the value returned and (b) the sequence of body
evaluations with their loop-variable bindings.
"""
import z3

import engine
import models
from engine import VAdt, VBool, VInt, VOpaque, VRef, VSeq, VStruct, VTuple, Event, base_ty
from specutil import is_variant, run_reference, vid_of

import os
THOROUGH = os.environ.get("MIRSYM_TIER") == "thorough"
LIST_BOUND = 5 if THOROUGH else 3
ARGS_BOUND = 6 if THOROUGH else 5


class SpecMismatch(Exception):
    pass


# ----------------------------------------------------------------------------- logging models
def interp_parts(ex, interp):
    """(context identity, bindings identity, call depth) of an interpreter value"""
    v = models.deref(ex, interp)
    if not isinstance(v, VStruct):
        return None, None, None

    def opt_target(o):
        if isinstance(o, VAdt) and isinstance(o.discr, int) and o.discr == 1:
            return vid_of(ex, ex.adt_fields(o, 1)[0])
        return None
    fields = dict(zip([fn for fn, _ in ex.P.types.structs["Interpreter"]], v.fields))
    depth = fields["depth"]
    cnt = depth.fields[0] if isinstance(depth, VStruct) else None       # ScopedCounter { count: RefCell<usize> }
    val = cnt.fields[0] if isinstance(cnt, VStruct) else None
    return opt_target(fields["cel"]), opt_target(fields["bindings"]), (val.bv if isinstance(val, VInt) else None)


def m_run_raw(ex, callee, args, ret_ty, frame):
    cel, b, depth = interp_parts(ex, args[0])
    extra = {"interp": vid_of(ex, args[0]), "code": args[1].root if isinstance(args[1], VRef) else None, "resolve": args[2].concrete() if isinstance(args[2], VBool) else None,
             "cel": cel, "bindings": b, "depth": depth}
    return ex.havoc("run_raw", args, ret_ty, extra)


def canon(ex, v):
    """identity of a CelValue: its vid, or ('str', vid of the text) for a string built from a key"""
    v = models.deref(ex, v)
    if isinstance(v, VAdt) and v.base() == "CelValue" and isinstance(v.discr, int):
        if ex.adt_variants(v.ty)[v.discr][0] == "String":
            return ("str", getattr(v.fields[v.discr][0], "vid", None))
    return getattr(v, "vid", None)


def m_bind_param(ex, callee, args, ret_ty, frame):
    extra = (vid_of(ex, args[0]), vid_of(ex, args[1]), canon(ex, args[2]))
    ex.used["havocked"].add("BindContext::bind_param")
    ex.trace.append(Event("bind_param", args, None, extra))
    return engine.VUnit()


def mk_interp(ex, cel_ref, bind_ref, depth_bv, tag):
    """an Interpreter value: { cel: Option<&CelContext>, bindings: Option<&BindContext>, depth: ScopedCounter }"""
    def some(r):
        return VAdt("Option", 1, {1: [r]}, ex.new_vid()) if r is not None else VAdt("Option", 0, {0: []}, ex.new_vid())
    names = [fn for fn, _ in ex.P.types.structs["Interpreter"]]
    vals = {"cel": some(cel_ref), "bindings": some(bind_ref),
            "depth": VStruct("ScopedCounter", [VStruct("RefCell", [VInt(depth_bv, False)], ex.new_vid())], ex.new_vid())}
    return VStruct("Interpreter", [vals[n] for n in names], ex.new_vid())


def m_setup_context(ex, callee, args, ret_ty, frame):
    cel = VOpaque("CelContext", ex.new_vid(), "clone of the caller's context")
    b = VOpaque("BindContext", ex.new_vid(), "clone of the caller's bindings")
    ex.used["havocked"].add("setup_context")
    ex.trace.append(Event("setup_context", args, None, {"ctx": vid_of(ex, args[0]), "cel": cel.vid, "bindings": b.vid}))
    return VTuple([cel, b])


def m_interp_empty(ex, callee, args, ret_ty, frame):
    ret = mk_interp(ex, None, None, z3.BitVecVal(0, 64), "Interpreter::empty (no context, no bindings)")
    ex.used["havocked"].add("Interpreter::empty")
    ex.notes.setdefault("empty_interps", set()).add(ret.vid)
    return ret


def m_is_truthy(ex, callee, args, ret_ty, frame):
    v = models.deref(ex, args[0])
    b = truthy_of(ex, v.vid, v)
    ex.used["havocked"].add("CelValueDyn::is_truthy")
    ex.trace.append(Event("is_truthy", [v.vid], b))
    return VBool(b)


def truthy_of(ex, vid, value=None):
    """uninterpreted truthiness of the value with identity `vid`, tied to what the property fixes
    for every engine: Bool(b) is truthy iff b, null and failures are not truthy"""
    if vid not in ex.truthy_memo:
        ex.truthy_memo[vid] = z3.Bool(f"truthy@{vid}")
    t = ex.truthy_memo[vid]
    if value is not None and isinstance(value, VAdt) and value.base() == "CelValue" and ("ax", vid) not in ex.truthy_memo:
        ex.truthy_memo[("ax", vid)] = True
        b = ex.adt_fields(value, ex.variant_index(value, "Bool"))[0]
        ex.assume(z3.Implies(is_variant(ex, value, "Bool"), t == b.b))
        ex.assume(z3.Implies(z3.Or(is_variant(ex, value, "Null"), is_variant(ex, value, "Err")), z3.Not(t)))
    return t


def m_into_keys(ex, callee, args, ret_ty, frame):
    """HashMap::into_keys: the keys in *some* order (a symbolic sequence of strings)."""
    m = args[0]
    key = ("keys", getattr(m, "vid", None))
    if key not in ex.lazy:
        n = z3.BitVec(ex.fresh_name("keys.len"), 64)
        ex.assume(z3.ULE(n, LIST_BOUND))
        ex.lazy[key] = VSeq("String", n, [], ex.new_vid())
    ex.used["modelled"].add("HashMap::into_keys (arbitrary key order)")
    ex.notes["keys_seq"] = ex.lazy[key]
    return engine.VIter(engine.vcopy(ex.lazy[key]), 0, None, "owned")


def rank_of(vid):
    """an arbitrary but fixed total order on strings (by identity): what `sort` sorts by"""
    return z3.Int(f"rank@{vid}")


def m_sort_strings(ex, callee, args, ret_ty, frame):
    """<[String]>::sort: the same strings in ascending order of an arbitrary total order (the keys
    of one map are distinct)"""
    import itertools
    seq = models.deref(ex, args[0])
    if not isinstance(seq, VSeq) or not isinstance(seq.length, int):
        return models.NOT_HANDLED
    items = list(seq.items)
    n = len(items)
    if n > 1:
        ranks = [rank_of(x.vid) for x in items]
        ex.assume(z3.Distinct(*ranks))
        perms = list(itertools.permutations(range(n)))
        k = ex.branch([(str(p), z3.And([ranks[p[i]] < ranks[p[i + 1]] for i in range(n - 1)])) for p in perms], "sort")
        seq.items[:] = [items[i] for i in perms[k]]
    ex.used["modelled"].add("<[String]>::sort (ascending in an arbitrary fixed total order)")
    return engine.VUnit()


def m_vec_into_celvalue(ex, callee, args, ret_ty, frame):
    """`impl<T: Into<CelValue>> From<Vec<T>> for CelValue` at T = CelValue: the generic body is
    `CelValue::List(v.into_iter().map(Into::into).collect())`, i.e. the same elements in order."""
    ex.used["modelled"].add("<Vec<CelValue> as Into<CelValue>>::into (generic impl at T = CelValue: same elements, same order)")
    idx = ex.P.types.variant_index("CelValue", "List")
    return VAdt("CelValue", idx, {idx: [args[0]]}, ex.new_vid())


MACRO_CFG = dict(
    inline=[r"^CelValue::(true_|false_|from_err|from_null|from_bool|from_val_slice|from_list|from_string)$", r"^CelError::\w+$", r"^(filter_list|filter_map|map_list|map_map)$"],
    opaque_types=("CelContext", "BindContext", "CelByteCode", "HashMap", "String", "CelBytes", "DateTime", "Duration", "Arc"),
    models=[
        (r"^Interpreter::run_raw$", m_run_raw),
        (r"^BindContext::bind_param$", m_bind_param),
        (r"^setup_context$", m_setup_context),
        (r"^Interpreter::empty$", m_interp_empty),
        (r"is_truthy$", m_is_truthy),
        (r"^<Vec<CelValue> as Into<CelValue>>::into$", m_vec_into_celvalue),
        (r"^HashMap(::)?(<.*>)?::into_keys$", m_into_keys),
        (r"^(slice::)?<impl \[String\]>::sort$", m_sort_strings),
        (r"^<IntoKeys<.*> as (IntoIterator|Iterator)>::(into_iter|next)$", lambda ex, c, a, r, f: models.m_into_iter(ex, c, a, r, f) if c.endswith("into_iter") else models.m_iter_next(ex, c, a, r, f)),
    ],
    seq_bound=LIST_BOUND,
    loop_bound=LIST_BOUND + 3,
    inline_default=True,
    keep_uninterpreted=[r"^<CelValue as (PartialEq|Debug|Display)", r"^CelValue::(as_type|or|and|lt|le|gt|ge|neq|in_|index|ord)$", r"^<CelValue as (Add|Sub|Mul|Div|Rem|Not|Neg|CelValueDyn)>"],
)


def macro_args(ex, func):
    # the caller's interpreter: some context, some bindings, an arbitrary call depth
    d = z3.BitVec(ex.fresh_name("caller.depth"), 64)
    ex.assume(z3.ULE(d, 200))
    ex.notes["caller_depth"] = d
    ctx = VRef(ex.heap(mk_interp(ex, VRef(ex.heap(VOpaque("CelContext", ex.new_vid(), "caller's context"), "cel")), VRef(ex.heap(VOpaque("BindContext", ex.new_vid(), "caller's bindings"), "bindings")), d,
                                 "caller's interpreter"), "ctx"))
    this = ex.fresh("CelValue", "this")
    n = z3.BitVec(ex.fresh_name("nargs"), 64)
    ex.assume(z3.ULE(n, ARGS_BOUND))
    codes = VSeq("&CelByteCode", n, [], ex.new_vid())
    bc = VRef(ex.heap(codes, "bytecode"))
    ex.notes.update(ctx=ctx, this=this, codes=codes, nargs=n)
    return [ctx, this, bc]


# ----------------------------------------------------------------------------- facts of a path
class Facts:
    def __init__(self, res):
        self.res = res
        ex = self.ex = res.ex
        self.this = ex.notes["this"]
        self.nargs = ex.notes["nargs"]
        self.codes = ex.notes["codes"]
        self.ctx_vid = vid_of(ex, ex.notes["ctx"])
        self.idents = [e for e in ex.trace if e.name == "run_raw" and e.extra["resolve"] is False]
        self.empty_interps = ex.notes.get("empty_interps", set())
        self.setup = [e for e in ex.trace if e.name == "setup_context"]
        binds, interps = {}, {}
        self.evals = []
        for e in ex.trace:
            if e.name == "bind_param":
                b, n, v = e.extra
                binds.setdefault(b, {})[n] = v
            elif e.name == "run_raw" and e.extra["resolve"] is not False:
                # the interpreter a body runs on is described by what it holds at that moment: which
                # context, which bindings (with the loop variable as bound by then), which call depth
                env = (e.extra["cel"], e.extra["bindings"], dict(binds.get(e.extra["bindings"], {}))) if e.extra.get("bindings") is not None else None
                self.evals.append(dict(interp=e.extra["interp"], code=e.extra["code"], resolve=e.extra["resolve"], ret=e.ret, env=env, depth=e.extra.get("depth")))

    def code(self, k):
        """identity of the k-th argument block"""
        ex = self.ex
        ex.seq_item(self.codes, k)
        return self.codes.items[k].root

    def ident(self, k):
        """the eval_ident event for argument k (or None)"""
        for e in self.idents:
            if e.extra["code"] == self.code(k):
                return e
        return None

    def list_seq(self):
        ex = self.ex
        idx = ex.variant_index(self.this, "List")
        return ex.adt_fields(self.this, idx)[0]

    def elem(self, seq, i):
        self.ex.seq_item(seq, i)
        return seq.items[i]

    def length(self, A, seq):
        if isinstance(seq.length, int):
            return seq.length
        for k in range(LIST_BOUND + 1):
            if A.ask(seq.length == k):
                return k
        raise engine.PathEnd("infeasible")


def ok_payload(ex, r):
    return ex.adt_fields(r, 0)[0]


def err_payload(ex, r):
    return ex.adt_fields(r, 1)[0]


# ----------------------------------------------------------------------------- expected outcomes
class Exp:
    def __init__(self, result, evals=None, note=""):
        self.result = result  # ('anyerr',) ('err_same', vid) ('bool', b) ('same', vid) ('list', [vid]) ('null',)
        self.evals = evals  # None = unconstrained, else [(code, env dict name->value, base)]
        self.note = note


def result_matches(ex, ret, want):
    """z3 Bool: the returned CelValue `ret` is what the reference expects"""
    k = want[0]
    if not isinstance(ret, VAdt) or ret.base() != "CelValue":
        return z3.BoolVal(False)
    if k == "same":
        return z3.BoolVal(ret.vid == want[1])
    if k == "anyerr":
        return is_variant(ex, ret, "Err")
    conc = ret.discr if isinstance(ret.discr, int) else None
    if conc is None:
        # a passed-through symbolic value where a constructed one is expected
        if k == "null":
            return is_variant(ex, ret, "Null")
        return z3.BoolVal(False)
    name = ex.adt_variants(ret.ty)[conc][0]
    if k == "err_same":
        return z3.BoolVal(name == "Err" and getattr(ret.fields[conc][0], "vid", None) == want[1])
    if k == "bool":
        if name != "Bool":
            return z3.BoolVal(False)
        b = ret.fields[conc][0]
        return b.b == want[1] if isinstance(want[1], bool) else b.b == want[1]
    if k == "null":
        return z3.BoolVal(name == "Null")
    if k == "list":
        if name != "List":
            return z3.BoolVal(False)
        seq = ret.fields[conc][0]
        got = [canon(ex, x) for x in seq.items]
        return z3.BoolVal(isinstance(seq.length, int) and got == list(want[1]))
    raise ValueError(k)


def evals_match(F, want, body_codes):
    """python bool: the body evaluations (those on the argument blocks in body_codes) are exactly
    the expected ones, in order, each under the expected loop-variable bindings and on an
    interpreter built from the clones setup_context returned."""
    got = [e for e in F.evals if e["code"] in body_codes]
    if len(got) != len(want):
        return False, f"{len(got)} body evaluations, expected {len(want)}"
    base = (F.setup[0].extra["cel"], F.setup[0].extra["bindings"]) if F.setup else None
    for i, (g, w) in enumerate(zip(got, want)):
        code, env = w
        if g["code"] != code:
            return False, f"evaluation {i} ran another argument block"
        if g["resolve"] is not True:
            return False, f"evaluation {i} did not resolve its result"
        if g["env"] is None:
            return False, f"evaluation {i} ran on an interpreter the macro did not build"
        if (g["env"][0], g["env"][1]) != base:
            return False, f"evaluation {i} ran on contexts other than the clones of the caller's"
        if g["env"][2] != env:
            return False, f"evaluation {i} saw loop bindings {g['env'][2]} instead of {env}"
    if F.setup and F.setup[0].extra["ctx"] != F.ctx_vid:
        return False, "contexts were not cloned from the calling interpreter"
    return True, ""


# ----------------------------------------------------------------------------- reference folds
def preconditions(A, F, arities, need_idents, containers=("List",)):
    """common prefix: arity, identifier arguments, receiver kind.  Returns (names, container) or Exp"""
    ex = F.ex
    if not A.ask(z3.Or([F.nargs == a for a in arities])):
        return Exp(("anyerr",), [], "wrong number of arguments")
    names = []
    for k in range(need_idents):
        ev = F.ident(k)
        if ev is None:
            raise SpecMismatch(f"argument {k} was never evaluated as an identifier")
        if ev.extra["interp"] not in F.empty_interps:
            raise SpecMismatch(f"the name of the loop variable (argument {k}) was evaluated with bindings in scope, so an outer binding of that name would replace it")
        if A.ask(is_variant(ex, ev.ret, "Err")):
            return Exp(("anyerr",), [], "identifier argument fails")
        v = ok_payload(ex, ev.ret)
        if not A.ask(is_variant(ex, v, "Ident")):
            return Exp(("anyerr",), [], "identifier argument is not an identifier")
        names.append(vid_of(ex, ex.adt_fields(v, ex.variant_index(v, "Ident"))[0]))
    for c in containers:
        if A.ask(is_variant(ex, F.this, c)):
            return names, c
    return Exp(("anyerr",), None, "receiver is not a " + "/".join(containers))


def body_result(F, evs, i):
    if i >= len(evs):
        raise SpecMismatch(f"the reference needs body evaluation #{i} but the macro stopped after {len(evs)}")
    return evs[i]["ret"]


def elements(A, F, container):
    """(sequence value, length, accessor of the i-th element's identity)"""
    ex = F.ex
    if container == "List":
        seq = F.list_seq()
    else:
        seq = ex.notes.get("keys_seq")
        if seq is None:
            raise SpecMismatch("map receiver but the keys were never enumerated")
        # "on maps filter and map range over the keys in one fixed order": the order may not be the
        # one the hash map happens to iterate in (which differs from one map instance to the next);
        # the reference visits the keys in ascending order of an arbitrary fixed total order on strings
        n = F.length(A, seq)
        items = [F.elem(seq, i) for i in range(n)]
        if n > 1:
            ex.assume(z3.Distinct(*[rank_of(x.vid) for x in items]))
        done = []
        for x in items:                         # insertion sort driven by the solver's answers
            pos = len(done)
            for j, y in enumerate(done):
                if A.ask(rank_of(x.vid) < rank_of(y.vid)):
                    pos = j
                    break
            done.insert(pos, x)
        return VSeq("String", n, done, ex.new_vid()), n
    n = F.length(A, seq)
    return seq, n


def elem_id(F, container, seq, i):
    e = F.elem(seq, i)
    return ("str", e.vid) if container == "Map" else e.vid


def quantifier(kind):
    def ref(A, F):
        ex = F.ex
        pre = preconditions(A, F, [2], 1)
        if isinstance(pre, Exp):
            return pre
        (name,), cont = pre
        seq, n = elements(A, F, cont)
        body = F.code(1)
        evs = [e for e in F.evals if e["code"] == body]
        want = []
        count = 0
        for i in range(n):
            want.append((body, {name: elem_id(F, cont, seq, i)}))
            r = body_result(F, evs, i)
            if A.ask(is_variant(ex, r, "Err")):
                return Exp(("err_same", err_payload(ex, r).vid), want, f"body fails at element {i}")
            t = A.ask(truthy_of(ex, ok_payload(ex, r).vid, ok_payload(ex, r)))
            if kind == "all" and not t:
                return Exp(("bool", False), want, f"falsy at {i}")
            if kind == "exists" and t:
                return Exp(("bool", True), want, f"truthy at {i}")
            if kind == "exists_one" and t:
                count += 1
                if count > 1:
                    return Exp(("bool", False), want, f"second truthy at {i}")
        if kind == "all":
            return Exp(("bool", True), want)
        if kind == "exists":
            return Exp(("bool", False), want)
        return Exp(("bool", count == 1), want)
    return ref


def ref_filter(A, F):
    ex = F.ex
    pre = preconditions(A, F, [2], 1, ("List", "Map"))
    if isinstance(pre, Exp):
        return pre
    (name,), cont = pre
    seq, n = elements(A, F, cont)
    body = F.code(1)
    evs = [e for e in F.evals if e["code"] == body]
    want, kept = [], []
    for i in range(n):
        eid = elem_id(F, cont, seq, i)
        want.append((body, {name: eid}))
        r = body_result(F, evs, i)
        if A.ask(is_variant(ex, r, "Err")):
            return Exp(("err_same", err_payload(ex, r).vid), want)
        if A.ask(truthy_of(ex, ok_payload(ex, r).vid, ok_payload(ex, r))):
            kept.append(eid)
    return Exp(("list", kept), want)


def ref_map(A, F):
    ex = F.ex
    pre = preconditions(A, F, [2, 3], 1, ("List", "Map"))
    if isinstance(pre, Exp):
        return pre
    (name,), cont = pre
    three = A.ask(F.nargs == 3)
    seq, n = elements(A, F, cont)
    c1 = F.code(1)
    c2 = F.code(2) if three else None
    evs = [e for e in F.evals if e["code"] in (c1, c2)]
    want, out, j = [], [], 0
    for i in range(n):
        eid = elem_id(F, cont, seq, i)
        env = {name: eid}
        if three:
            want.append((c1, env))
            p = body_result(F, evs, j)
            j += 1
            if A.ask(is_variant(ex, p, "Err")):
                return Exp(("err_same", err_payload(ex, p).vid), want)
            if not A.ask(truthy_of(ex, ok_payload(ex, p).vid, ok_payload(ex, p))):
                continue
            want.append((c2, env))
        else:
            want.append((c1, env))
        r = body_result(F, evs, j)
        j += 1
        if A.ask(is_variant(ex, r, "Err")):
            return Exp(("err_same", err_payload(ex, r).vid), want)
        out.append(ok_payload(ex, r).vid)
    return Exp(("list", out), want)


def ref_reduce(A, F):
    """[..].reduce(acc, x, step, seed)"""
    ex = F.ex
    pre = preconditions(A, F, [4], 2)
    if isinstance(pre, Exp):
        # the seed may or may not have been evaluated before the receiver check: unconstrained
        pre.evals = None
        return pre
    (acc, x), cont = pre
    seq, n = elements(A, F, cont)
    step, seed = F.code(2), F.code(3)
    seeds = [e for e in F.evals if e["code"] == seed]
    if len(seeds) != 1:
        raise SpecMismatch(f"the seed was evaluated {len(seeds)} times")
    if seeds[0]["interp"] != F.ctx_vid:
        raise SpecMismatch("the seed was not evaluated in the caller's scope")
    if A.ask(is_variant(ex, seeds[0]["ret"], "Err")):
        return Exp(("anyerr",), [], "seed fails")
    cur = ok_payload(ex, seeds[0]["ret"]).vid
    evs = [e for e in F.evals if e["code"] == step]
    want = []
    for i in range(n):
        want.append((step, {x: elem_id(F, cont, seq, i), acc: cur}))
        r = body_result(F, evs, i)
        if A.ask(is_variant(ex, r, "Err")):
            return Exp(("err_same", err_payload(ex, r).vid), want)
        cur = ok_payload(ex, r).vid
    return Exp(("same", cur), want)


def is_absent(ex, err):
    return z3.Or(is_variant(ex, err, "Binding"), is_variant(ex, err, "Attribute"))


def ref_has(A, F):
    ex = F.ex
    if not A.ask(F.nargs == 1):
        return Exp(("anyerr",), [])
    c0 = F.code(0)
    evs = [e for e in F.evals if e["code"] == c0]
    r = body_result(F, evs, 0)
    want = [("ctx", c0)]
    if not A.ask(is_variant(ex, r, "Err")):
        return Exp(("bool", True), want)
    e = err_payload(ex, r)
    if A.ask(is_absent(ex, e)):
        return Exp(("bool", False), want)
    return Exp(("err_same", e.vid), want)


def ref_coalesce(A, F):
    ex = F.ex
    n = None
    for k in range(ARGS_BOUND + 1):
        if A.ask(F.nargs == k):
            n = k
            break
    want = []
    for i in range(n):
        ci = F.code(i)
        want.append(("ctx", ci))
        if len(F.evals) <= i:
            raise SpecMismatch(f"argument {i} was not evaluated")
        r = F.evals[i]["ret"]
        if A.ask(is_variant(ex, r, "Err")):
            e = err_payload(ex, r)
            if A.ask(is_absent(ex, e)):
                continue
            return Exp(("err_same", e.vid), want)
        v = ok_payload(ex, r)
        if A.ask(is_variant(ex, v, "Null")):
            continue
        return Exp(("same", v.vid), want)
    return Exp(("null",), want)


def ctx_evals_match(F, want):
    """has/coalesce: the argument blocks are evaluated on the caller's interpreter, in order"""
    got = F.evals
    if len(got) != len(want):
        return False, f"{len(got)} argument evaluations, expected {len(want)}"
    for i, (g, (_, code)) in enumerate(zip(got, want)):
        if g["code"] != code:
            return False, f"evaluation {i} ran another argument"
        if g["interp"] != F.ctx_vid:
            return False, f"evaluation {i} did not run in the caller's scope"
        if g["resolve"] is not True:
            return False, f"evaluation {i} did not resolve its result"
    return True, ""


# ----------------------------------------------------------------------------- scenarios for native replay
REALISABLE_ERRORS = ("DivideByZero", "Value", "InvalidOp", "Attribute", "Binding", "Argument")


def prefer_realisable(F):
    """constraints that pick, where the path leaves it open, error kinds for which a CEL
    expression failing that way is known (used only to choose among counterexamples)"""
    def prefs():
        ex = F.ex
        out = []
        for g in F.evals:
            e = err_payload(ex, g["ret"])
            if not isinstance(e.discr, int):
                out.append(z3.Or([e.discr == ex.variant_index(e, k) for k in REALISABLE_ERRORS]))
        return out
    return prefs


def mval(model, term):
    return model.eval(term, model_completion=True)


def variant_name(ex, model, v):
    vs = ex.adt_variants(v.ty)
    if isinstance(v.discr, int):
        return vs[v.discr][0]
    k = mval(model, v.discr).as_long()
    return vs[k][0] if k < len(vs) else "?"


def outcome_of(ex, model, r, style):
    """concrete class of one body evaluation result under the model"""
    if variant_name(ex, model, r) == "Err":
        return "err:" + variant_name(ex, model, err_payload(ex, r))
    v = ok_payload(ex, r)
    if style == "coalesce":
        return "null" if variant_name(ex, model, v) == "Null" else "value"
    if style == "value":
        return "value"
    return ("truthy:" if z3.is_true(mval(model, truthy_of(ex, v.vid, v))) else "falsy:") + variant_name(ex, model, v)


def make_scenario(macro, F, style_of_code):
    """-> function(model) -> JSON-able description of a concrete instance of this path's inputs"""
    def build(model):
        ex = F.ex
        sc = {"kind": "macro", "macro": macro, "nargs": mval(model, F.nargs).as_long(), "receiver": variant_name(ex, model, F.this)}
        idents = {}
        for k in range(2):
            ev = F.ident(k) if len(F.idents) > 0 else None
            if ev is not None:
                idents[k] = variant_name(ex, model, ev.ret) == "Ok" and variant_name(ex, model, ok_payload(ex, ev.ret)) == "Ident"
        sc["idents_ok"] = idents
        seq = None
        if sc["receiver"] == "List":
            seq = F.list_seq()
        elif sc["receiver"] == "Map":
            seq = ex.notes.get("keys_seq")
        n = 0
        if seq is not None:
            n = seq.length if isinstance(seq.length, int) else mval(model, seq.length).as_long()
        sc["n"] = n
        elem_index = {}
        if seq is not None:
            for i in range(n):
                e = F.elem(seq, i)
                elem_index[("str", e.vid) if sc["receiver"] == "Map" else e.vid] = i
        codes = {F.code(k): k for k in range(5)}
        outs = {}
        order = []
        for g in F.evals:
            ck = codes.get(g["code"])
            style = style_of_code(ck)
            o = outcome_of(ex, model, g["ret"], style)
            if g["env"] is None:
                key = (ck, None)
            else:
                idx = [elem_index.get(v) for v in g["env"][2].values() if v in elem_index]
                key = (ck, idx[0] if idx else None)
            if key in outs and outs[key] != o:
                return {"unavailable": f"argument {ck} has two different outcomes for element {key[1]} on this path"}
            outs[key] = o
            order.append([ck, key[1], o])
        sc["outcomes"] = [[k[0], k[1], o] for k, o in outs.items()]
        sc["evaluation_order_seen"] = order
        return sc
    return build


# ----------------------------------------------------------------------------- target table
def make_check(ref_fn, ctx_style=False, macro="?"):
    def style_of_code(k):
        if macro == "coalesce":
            return "coalesce"
        if macro == "has":
            return "value"
        if macro == "reduce":
            return "value"
        if macro == "map":
            return None  # decided below per arity
        return "pred"

    def check(res, V):
        ex = res.ex
        if res.outcome == "panic":
            V.check(ex, "macro returns instead of panicking", False, detail=res.msg)
            return
        if res.outcome != "return":
            V.inconclusive.append(f"{res.outcome}: {res.msg}")
            return
        F = Facts(res)

        def soc(k):
            if macro == "map":
                three = z3.is_true(z3.simplify(F.nargs == 3)) or ex.solver.check(F.nargs != 3) == z3.unsat
                return "pred" if (three and k == 1) else "value"
            return style_of_code(k)
        scen = make_scenario(macro, F, soc)
        pref = prefer_realisable(F)
        try:
            combos = run_reference(ex, lambda A: ref_fn(A, F))
        except SpecMismatch as e:
            V.check(ex, "evaluation protocol", False, detail=str(e), scenario=scen, prefer=pref)
            return
        for assumed, exp in combos:
            V.witness(exp.result[0] + (":" + exp.note.split(" at ")[0] if exp.note else ""))
            V.check(ex, f"result is {exp.result[0]}", result_matches(ex, res.ret, exp.result), assumed,
                    detail=lambda: f"expected {exp.result} ({exp.note}); returned {res.ret!r}", scenario=scen, prefer=pref)
            if exp.evals is not None:
                if ctx_style:
                    ok, why = ctx_evals_match(F, exp.evals)
                else:
                    codes = {c for c, _ in exp.evals} | {F.code(k) for k in (1, 2)}
                    if ref_fn is ref_reduce:
                        codes = {F.code(2)}
                    ok, why = evals_match(F, exp.evals, codes)
                V.check(ex, "body evaluations: order, multiplicity, bindings, early stop", ok, assumed, detail=why, scenario=scen, prefer=pref)
                if not ctx_style:
                    # C12: a body runs at the call depth of the interpreter that evaluates the macro (so a
                    # reference cycle through a macro body reaches the depth limit), every iteration
                    # from that same depth (iterations do not consume the budget)
                    d = ex.notes["caller_depth"]
                    bodies = [e for e in F.evals if e["code"] in codes and e.get("depth") is not None]
                    f = z3.And([e["depth"] == d for e in bodies] + [z3.BoolVal(True)])
                    V.check(ex, "every body evaluation runs at the caller's call depth", f, assumed,
                            detail=lambda: f"caller at depth {d}, body interpreters at {[str(z3.simplify(e['depth'])) for e in bodies]}", scenario=scen,
                            prefer=lambda: [d == 5])
    return check


TARGETS = []


def add(name, prop, func, ref, ctx_style=False, what=""):
    TARGETS.append(dict(name=name, props=[prop, "C01"] + (["C12"] if prop == "C07" else []), func=func, cfg=MACRO_CFG, make_args=macro_args, check=make_check(ref, ctx_style, name.split("_", 1)[1]), what=what,
                        bounds={"list_len": f"0..={LIST_BOUND}", "macro_args": f"0..={ARGS_BOUND}"}))


add("c07_all", "C07", "all_impl", quantifier("all"), what="l.all(x,p): true iff every p truthy; stops at the first falsy or failing element")
add("c07_exists", "C07", "exists_impl", quantifier("exists"), what="l.exists(x,p): true iff some p truthy; stops at the first truthy or failing element")
add("c07_exists_one", "C07", "exists_one_impl", quantifier("exists_one"), what="l.exists_one(x,p): exactly one truthy")
add("c07_filter", "C07", "filter_impl", ref_filter, what="filter keeps the elements with truthy p, order and multiplicity preserved; on maps ranges over the keys")
add("c07_map", "C07", "map_impl", ref_map, what="map(x,e) / map(x,p,e)")
add("c07_reduce", "C07", "reduce_impl", ref_reduce, what="reduce threads acc from seed through step left to right")
add("c08_has", "C08", "has_impl", ref_has, ctx_style=True, what="has(e): true / false exactly for Binding|Attribute / other failures propagate")
add("c08_coalesce", "C08", "coalesce_impl", ref_coalesce, ctx_style=True, what="coalesce: first non-null non-absent argument, left to right, nothing evaluated after the chosen one")
