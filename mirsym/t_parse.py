"""Targets: the recursive-descent parser / compiler front half on short token sequences
(properties C02, C05, C09, C10, C13, C17, C18).

The MIR of `CelCompiler::parse_expression` and everything below it (parse_conditional_or ..
parse_primary, the `compile!` expansions, `CompiledProg::*`, `PreResolvedByteCode::*`,
`ProgramDetails::*`, `AstNode`, `SourceRange::surrounding`) is executed on a *token sequence*
served by a model of the `Tokenizer` trait object: the tokens are concrete in number, their
kinds are symbolic where the template says so (e.g. two arbitrary binary operators), operands
are identifiers or literals with symbolic payloads, every token sits at its own columns.
Value operations evaluated by the compiler for constant operands are uninterpreted.

Checked on what the parser returns (syntax tree, emitted code, parameter set):
* grouping = the CEL grammar's precedence and left associativity; parentheses override (C02);
* the emitted code of an operator chain is the post-order of that grouping (C02/C03);
* the emitted block is well-formed: labels resolve inside the block, no pop from an empty stack,
  exactly one value at the end of every path, no backward jump (C10) - decided by a small
  abstract interpreter over the *real* emitted instructions;
* `a || b`, `a && b`, `c ? x : y`: running the emitted block on the reference stack machine
  evaluates the right operand / exactly one branch only when the statement says so (C05);
* the parameter set is exactly the identifiers of the token sequence (C17);
* every syntax-tree node spans exactly its leftmost to its rightmost token (C18);
* an integer literal token becomes that int64, or is rejected above the int64 range (C13)."""
import os
import re
import z3

import engine
import models
from engine import VAdt, VBool, VInt, VOpaque, VRef, VSeq, VStruct, VTuple, VUnit, VStr, VIter, Event, base_ty, vcopy, norm_ty, ty_args
from specutil import is_variant, run_reference, vid_of, find_func

BINARY_TOKENS = ["OrOr", "AndAnd", "LessThan", "LessEqual", "EqualEqual", "NotEqual", "GreaterEqual", "GreaterThan", "In", "Add", "Minus", "Multiply", "Divide", "Mod"]
PREC = {"OrOr": 1, "AndAnd": 2, "LessThan": 3, "LessEqual": 3, "EqualEqual": 3, "NotEqual": 3, "GreaterEqual": 3, "GreaterThan": 3, "In": 3, "Add": 4, "Minus": 4, "Multiply": 5, "Divide": 5, "Mod": 5}
OPCODE = {"LessThan": "Lt", "LessEqual": "Le", "EqualEqual": "Eq", "NotEqual": "Ne", "GreaterEqual": "Ge", "GreaterThan": "Gt", "In": "In", "Add": "Add", "Minus": "Sub", "Multiply": "Mul",
          "Divide": "Div", "Mod": "Mod", "OrOr": "Or", "AndAnd": "And"}


def u64(n):
    return VInt(z3.BitVecVal(n, 64), False)


# Which field of `SourceLocation` holds the line and which the column is read off the real
# `SourceLocation::new(line, col)` (executed once per program), so that the templates follow the
# type's representation instead of assuming it.
LOC_IDX = {"line": 0, "col": 1, "for": None}


def learn_loc_layout(ex):
    if LOC_IDX["for"] == id(ex.P):
        return
    LOC_IDX.update(line=0, col=1)
    LOC_IDX["for"] = id(ex.P)
    try:
        f = find_func(ex.P, "new", "SourceLocation")
        v = ex.run_function(f, [u64(7), u64(9)], 3)
        vals = [x.concrete() for x in v.fields]
        LOC_IDX.update(line=vals.index(7), col=vals.index(9))
    except Exception:
        pass


def loc(line, col):
    f = [None, None]
    f[LOC_IDX["line"]], f[LOC_IDX["col"]] = u64(line), u64(col)
    return VStruct("SourceLocation", f)


def mk_token(ex, i, kind, *fields, sym=None):
    """token number i occupies columns [3i, 3i+2) of line 0"""
    T = ex.P.types
    if sym is not None:
        d = z3.BitVec(ex.fresh_name(f"tok{i}.d"), 64)
        ex.assume(z3.Or([d == T.variant_index("Token", k) for k in sym]))
        t = VAdt("Token", d, {}, ex.new_vid())
    else:
        idx = T.variant_index("Token", kind)
        t = VAdt("Token", idx, {idx: list(fields)}, ex.new_vid())
    rng = VStruct("SourceRange", [loc(0, 3 * i), loc(0, 3 * i + 2)])
    return VStruct("TokenWithLoc", [t, rng], ex.new_vid())


def ident(ex, i, name):
    return mk_token(ex, i, "Ident", VOpaque("String", ex.new_vid(), "name:" + name))


def opt_result(ex, ret_ty, val=None):
    rt = norm_ty(ret_ty)
    inner = ty_args(rt)[0] if ty_args(rt) else "Option"
    return models.mk_result(ex, rt, ok=models.mk_option(ex, inner, val) if val is not None else models.mk_option(ex, inner))


def m_peek(ex, callee, args, ret_ty, frame):
    ts, pos = ex.notes["tokens"], ex.notes["pos"]
    if pos >= len(ts.items):
        return opt_result(ex, ret_ty)
    return opt_result(ex, ret_ty, VRef(ex.notes["tokroot"], (("i", pos),)))


def m_next(ex, callee, args, ret_ty, frame):
    ts, pos = ex.notes["tokens"], ex.notes["pos"]
    if pos >= len(ts.items):
        return opt_result(ex, ret_ty)
    ex.notes["pos"] = pos + 1
    return opt_result(ex, ret_ty, vcopy(ts.items[pos]))


def m_location(ex, callee, args, ret_ty, frame):
    pos = ex.notes["pos"]
    return loc(0, 3 * pos - 1 if pos > 0 else 0)


def m_box_new(ex, callee, args, ret_ty, frame):
    return args[0]


def m_value_op(ex, callee, args, ret_ty, frame):
    return ex.havoc(callee, args, ret_ty, {"ids": [vid_of(ex, a) for a in args]})


PARSE_CFG = dict(
    inline=[], inline_default=True,
    keep_uninterpreted=[r"^<CelValue as ", r"^CelValue::(as_type|or|and|lt|le|gt|ge|neq|in_|index|ord|eq|is_truthy)$", r"^BindContext::", r"^Interpreter::", r"^construct_type$"],
    opaque_types=("BindContext", "HashMap", "String", "CelBytes", "DateTime", "Duration", "Arc"),
    models=[(r"^<dyn Tokenizer as Tokenizer>::peek$", m_peek), (r"^<dyn Tokenizer as Tokenizer>::next$", m_next), (r"^<dyn Tokenizer as Tokenizer>::location$", m_location),
            (r"^Box(::)?(<.*>)?::new$", m_box_new),
            (r"^(CelValue::(or|and|lt|le|gt|ge|neq|in_|index)|<CelValue as (Add|Sub|Mul|Div|Rem|Not|Neg|CelValueDyn)>::(add|sub|mul|div|rem|not|neg|eq))$", m_value_op),
            (r"is_truthy$", lambda ex, c, a, r, f: __import__("t_vm").m_is_truthy(ex, c, a, r, f))],
    seq_bound=3, loop_bound=40, max_call_depth=60, max_steps=600000,
)


def make_args_for(build):
    def make_args(ex, func):
        learn_loc_layout(ex)
        toks = build(ex)
        seq = VSeq("TokenWithLoc", len(toks), toks, ex.new_vid())
        root = ex.heap(seq, "tokens")
        ex.notes.update(tokens=seq, pos=0, tokroot=root, toks=toks)
        comp = VStruct("CelCompiler", [VRef(ex.heap(VOpaque("dyn Tokenizer", ex.new_vid()), "tokenizer"), (), True), VOpaque("BindContext", ex.new_vid(), "for_compile"), VInt(z3.BitVecVal(0, 32), False)], ex.new_vid())
        return [VRef(ex.heap(comp, "compiler"), (), True)]
    return make_args


# ----------------------------------------------------------------------------- reading the result
def variant(ex, v):
    return ex.adt_variants(v.ty)[v.discr][0] if isinstance(v.discr, int) else None


def span_of(node):
    """(start col, end col) of an AstNode (line 0 everywhere in the templates)"""
    rng = node.fields[0]
    return (rng.fields[0].fields[LOC_IDX["col"]].concrete(), rng.fields[1].fields[LOC_IDX["col"]].concrete())


def shape(ex, v, spans):
    """nested description of a syntax-tree value: ('leaf', name vid | literal) / ('bin', op, l, r) / ('not'|'neg', n, x) / ('cond', c, x, y) / ('paren', x)
    `spans` collects (shape, span) for every AstNode met"""
    if isinstance(v, VStruct) and base_ty(v.ty) == "AstNode":
        s = shape(ex, v.fields[1], spans)
        spans.append((s, span_of(v)))
        return s
    if isinstance(v, VStruct) and base_ty(v.ty) == "Member":
        prim = shape(ex, v.fields[0], spans)
        if isinstance(v.fields[1], VSeq) and v.fields[1].items:
            return ("member", prim, len(v.fields[1].items))
        return prim
    if isinstance(v, VStruct) and base_ty(v.ty) == "Ident":
        return ("leaf", getattr(v.fields[0], "vid", None))
    if isinstance(v, VAdt):
        name = variant(ex, v)
        f = v.fields.get(v.discr, [])
        b = v.base()
        if name == "Binary":
            fields = dict(zip([fn for fn, _ in ex.P.types.enums[b][v.discr][1]], f))
            op = b if "op" not in fields else variant(ex, fields["op"])
            return ("bin", op, shape(ex, fields["lhs"], spans), shape(ex, fields["rhs"], spans))
        if b == "Expr" and name == "Ternary":
            fields = dict(zip([fn for fn, _ in ex.P.types.enums[b][v.discr][1]], f))
            return ("cond",) + tuple(shape(ex, fields[k], spans) for k in fields)
        if b == "Unary" and name in ("NotMember", "NegMember"):
            depth = 0
            lst = f[0]
            while True:
                node = lst.fields[1]
                if variant(ex, node) == "EmptyList":
                    break
                depth += 1
                lst = node.fields[node.discr][0]
            return ("not" if name == "NotMember" else "neg", depth, shape(ex, f[1], spans))
        if b == "Primary" and name == "Parens":
            return ("paren", shape(ex, f[0], spans))
        if b == "Primary" and name == "Literal":
            lit = f[0]
            return ("lit", variant(ex, lit), lit.fields.get(lit.discr, []))
        if len(f) == 1:
            return shape(ex, f[0], spans)
        return ("node", b, name)
    return ("?", repr(v)[:40])


def strip_paren(s):
    while isinstance(s, tuple) and s[0] == "paren":
        s = s[1]
    return s


def code_points(ex, cprog):
    """[(kind, payload...)] of the PreResolvedByteCode a CompiledProg holds, or ('const', value)"""
    inner = cprog.fields[0]
    if variant(ex, inner) == "ConstExpr":
        return ("const", inner.fields[inner.discr][0])
    pre = inner.fields[inner.discr][0]
    out = []
    for cp in pre.fields[0].items:
        k = variant(ex, cp)
        f = cp.fields.get(cp.discr, [])
        if k == "Bytecode":
            b = f[0]
            out.append(("op", variant(ex, b), b.fields.get(b.discr, [])))
        elif k == "Jmp":
            out.append(("jmp", f[0].concrete()))
        elif k == "JmpCond":
            out.append(("jmpcond", variant(ex, f[0]) == "True", f[1].concrete()))
        elif k == "Label":
            out.append(("label", f[0].concrete()))
        else:
            out.append(("op", "?unknown code point " + repr(cp)[:60], []))
    return ("code", out)


def verify_block(points):
    """well-formedness of one emitted block (C10): every label defined once and every jump target
    defined, forward only; abstract stack heights: never negative, the same wherever paths meet,
    exactly one value at the end.  -> None or a description of the fault"""
    labels = {}
    instrs = []
    for p in points:
        if p[0] == "label":
            if p[1] in labels:
                return f"label {p[1]} defined twice"
            labels[p[1]] = len(instrs)
        else:
            instrs.append(p)
    n = len(instrs)
    # jumps that were emitted with a relative distance instead of a label (distances count
    # instructions, labels take no room): turned into jumps to the instruction they reach
    for k, ins in enumerate(instrs):
        if ins[0] == "op" and ins[1] in ("Jmp", "JmpCond"):
            f = ins[2]
            try:
                d = f[-1].concrete()
                bits = f[-1].bv.size()
                d = d - (1 << bits) if d >= 1 << (bits - 1) else d
            except Exception:
                return f"relative jump at {k} with a symbolic distance"
            lab = ("rel", k)
            labels[lab] = k + 1 + d
            if not 0 <= labels[lab] <= n:
                return f"relative jump at {k} leaves the block"
            instrs[k] = ("jmp", lab) if ins[1] == "Jmp" else ("jmpcond", None, lab)
    effect = {"Push": (0, 1), "Pop": (1, 0), "Test": (1, 1), "Dup": (1, 2), "Not": (1, 1), "Neg": (1, 1), "Index": (2, 1), "Access": (2, 1)}
    for b in ("Or", "And", "Add", "Sub", "Mul", "Div", "Mod", "Lt", "Le", "Eq", "Ne", "Ge", "Gt", "In"):
        effect[b] = (2, 1)
    height = {0: 0}
    work = [0]
    end_heights = set()
    while work:
        pc = work.pop()
        h = height[pc]
        if pc == n:
            end_heights.add(h)
            continue
        ins = instrs[pc]
        succ = []
        if ins[0] == "op":
            name, f = ins[1], ins[2]
            if name in ("MkList", "FmtString"):
                pops, pushes = f[0].concrete(), 1
            elif name == "MkDict":
                pops, pushes = 2 * f[0].concrete(), 1
            elif name == "Call":
                pops, pushes = f[0].concrete() + 1, 1
            elif name in effect:
                pops, pushes = effect[name]
            else:
                return f"unknown instruction {name}"
            if h < pops:
                return f"instruction {pc} ({name}) pops from a stack of height {h}"
            succ.append((pc + 1, h - pops + pushes))
        else:
            lab = ins[-1]
            if lab not in labels:
                return f"jump at {pc} to an undefined label {lab}"
            tgt = labels[lab]
            if tgt <= pc:
                return f"backward jump at {pc}"
            if ins[0] == "jmp":
                succ.append((tgt, h))
            else:
                if h < 1:
                    return f"conditional jump at {pc} pops from an empty stack"
                succ.append((tgt, h - 1))
                succ.append((pc + 1, h - 1))
        for t, hh in succ:
            if t > n:
                return f"jump beyond the end of the block at {pc}"
            if t in height:
                if height[t] != hh:
                    return f"paths meet at {t} with stack heights {height[t]} and {hh}"
            else:
                height[t] = hh
                work.append(t)
    if end_heights != {1}:
        return f"block ends with stack heights {sorted(end_heights)}"
    return None


def postorder(s, names):
    """expected straight-line code for a grouping of arithmetic/relational operators over identifiers"""
    s = strip_paren(s)
    if s[0] == "leaf":
        return [("Push", s[1])]
    if s[0] == "bin":
        return postorder(s[2], names) + postorder(s[3], names) + [(s[1],)]
    raise ValueError(s)


AST_OP = {"Add": "Add", "Minus": "Sub", "Multiply": "Mult", "Divide": "Div", "Mod": "Mod", "LessThan": "Lt", "LessEqual": "Le", "EqualEqual": "Eq", "NotEqual": "Ne", "GreaterEqual": "Ge",
          "GreaterThan": "Gt", "In": "In", "OrOr": "ConditionalOr", "AndAnd": "ConditionalAnd"}
CODE_OF_AST = {"Add": "Add", "Sub": "Sub", "Mult": "Mul", "Div": "Div", "Mod": "Mod", "Lt": "Lt", "Le": "Le", "Eq": "Eq", "Ne": "Ne", "Ge": "Ge", "Gt": "Gt", "In": "In"}


def result_parts(ex, ret):
    """Ok((CompiledProg, AstNode<Expr>)) -> (cprog, ast) ; None for Err"""
    if not isinstance(ret.discr, int) or ret.discr != 0:
        return None
    tup = ret.fields[0][0]
    return tup.items[0], tup.items[1]


def params_of(cprog):
    det = cprog.fields[1]
    st = det.fields[1]
    return sorted(getattr(x, "vid", None) for x in st.items) if isinstance(st, VSeq) else None


def token_kind(ex, A, tok, among):
    t = tok.fields[0]
    if isinstance(t.discr, int):
        return variant(ex, t)
    for k in among:
        if A.ask(is_variant(ex, t, k)):
            return k
    return None


def scen_tokens(ex):
    def build(model):
        out = []
        for tw in ex.notes["toks"]:
            t = tw.fields[0]
            k = ex.adt_variants(t.ty)[t.discr if isinstance(t.discr, int) else model.eval(t.discr, model_completion=True).as_long()][0]
            if k == "Ident":
                out.append(("Ident", t.fields[t.discr][0].tag.split(":", 1)[1]))
            elif k == "IntLit":
                out.append(("IntLit", model.eval(t.fields[t.discr][0].bv, model_completion=True).as_long()))
            else:
                out.append((k,))
        return {"kind": "tokens", "tokens": out}
    return build


# ----------------------------------------------------------------------------- targets
def t_chain(ex):
    return [ident(ex, 0, "a"), mk_token(ex, 1, None, sym=BINARY_TOKENS), ident(ex, 2, "b"), mk_token(ex, 3, None, sym=BINARY_TOKENS), ident(ex, 4, "c")]


def t_paren_chain(ex):
    return [ident(ex, 0, "a"), mk_token(ex, 1, None, sym=BINARY_TOKENS), mk_token(ex, 2, "LParen"), ident(ex, 3, "b"), mk_token(ex, 4, None, sym=BINARY_TOKENS), ident(ex, 5, "c"), mk_token(ex, 6, "RParen")]


def check_chain(paren):
    def check(res, V):
        ex = res.ex
        sc = scen_tokens(ex)
        if res.outcome == "panic":
            V.check(ex, "the parser reports an error instead of panicking", False, detail=res.msg, scenario=sc)
            return
        if res.outcome != "return":
            V.inconclusive.append(f"{res.outcome}: {res.msg}")
            return
        toks = ex.notes["toks"]
        io1, io2 = (1, 3) if not paren else (1, 4)
        ia, ib, ic = (0, 2, 4) if not paren else (0, 3, 5)
        names = {getattr(toks[i].fields[0].fields[toks[i].fields[0].discr][0], "vid", None): n for i, n in ((ia, "a"), (ib, "b"), (ic, "c"))}
        na, nb, nc = list(names)
        parts = result_parts(ex, res.ret)

        def ref(A):
            return token_kind(ex, A, toks[io1], BINARY_TOKENS), token_kind(ex, A, toks[io2], BINARY_TOKENS)
        for assumed, (o1, o2) in run_reference(ex, ref):
            V.witness(f"{o1}/{o2}")
            if parts is None:
                V.check(ex, "a well-formed operator chain parses", False, assumed, detail=lambda: f"a {o1} b {o2} c -> {res.ret!r}", scenario=sc)
                continue
            cprog, ast = parts
            spans = []
            got = shape(ex, ast, spans)
            a, b, c = ("leaf", na), ("leaf", nb), ("leaf", nc)
            if paren:
                want = ("bin", AST_OP[o1], a, ("paren", ("bin", AST_OP[o2], b, c)))
            elif PREC[o2] > PREC[o1]:
                want = ("bin", AST_OP[o1], a, ("bin", AST_OP[o2], b, c))
            else:
                want = ("bin", AST_OP[o2], ("bin", AST_OP[o1], a, b), c)
            V.check(ex, "grouping follows precedence and left associativity" if not paren else "parentheses override precedence", got == want, assumed,
                    detail=lambda: f"a {o1} {'(' if paren else ''}b {o2} c{')' if paren else ''}: tree {got}, grammar {want}", scenario=sc)
            # C17
            V.check(ex, "the parameter set is exactly the identifiers", params_of(cprog) == sorted(names), assumed, detail=lambda: f"params {params_of(cprog)} vs {sorted(names)}", scenario=sc)
            # C18: every node spans its leftmost..rightmost token
            def extent(s):
                s0 = s
                if s[0] == "leaf":
                    i = {na: ia, nb: ib, nc: ic}[s[1]]
                    return (3 * i, 3 * i + 2)
                if s[0] == "paren":
                    return (3 * 2, 3 * 6 + 2)
                l, r = extent(s[2]), extent(s[3])
                return (min(l[0], r[0]), max(l[1], r[1]))
            bad = [(s, sp, extent(s)) for s, sp in spans if s[0] in ("leaf", "bin", "paren") and sp != extent(s)]
            V.check(ex, "every syntax-tree node spans exactly its own tokens", not bad, assumed, detail=lambda: f"{bad[:3]}", scenario=sc)
            # emitted code
            code = code_points(ex, cprog)
            if code[0] != "code":
                V.check(ex, "identifier operands are not folded", False, assumed, detail=lambda: repr(code), scenario=sc)
                continue
            fault = verify_block(code[1])
            V.check(ex, "emitted block is well-formed (labels, stack heights, one result)", fault is None, assumed, detail=lambda: f"{fault}: {code[1]}", scenario=sc)
            if "OrOr" not in (o1, o2) and "AndAnd" not in (o1, o2):
                straight = [p for p in code[1] if p[0] != "label"]
                got_code = []
                for p in straight:
                    if p[0] == "op" and p[1] == "Push":
                        v = p[2][0]
                        got_code.append(("Push", getattr(v.fields[v.discr][0], "vid", None) if isinstance(v, VAdt) and isinstance(v.discr, int) else None))
                    elif p[0] == "op":
                        got_code.append((p[1],))
                    else:
                        got_code.append(p)
                want_code = [(x[0], x[1]) if x[0] == "Push" else (CODE_OF_AST[x[0]],) for x in postorder(want, names)]
                V.check(ex, "emitted code is the post-order of the grouping", got_code == want_code, assumed, detail=lambda: f"code {got_code}, expected {want_code}", scenario=sc)
    return check


def entry(P):
    return find_func(P, "parse_expression", "CelCompiler")


def t_intlit(ex):
    v = ex.fresh("u64", "lit")
    return [mk_token(ex, 0, "IntLit", v)]


def check_intlit(res, V):
    ex = res.ex
    sc = scen_tokens(ex)
    if res.outcome != "return":
        (V.check(ex, "no panic", False, detail=res.msg, scenario=sc) if res.outcome == "panic" else V.inconclusive.append(f"{res.outcome}: {res.msg}"))
        return
    tok = ex.notes["toks"][0].fields[0]
    v = tok.fields[tok.discr][0].bv
    parts = result_parts(ex, res.ret)

    def ref(A):
        return A.ask(z3.ULE(v, (1 << 63) - 1))
    for assumed, fits in run_reference(ex, ref):
        V.witness("fits int64" if fits else "above int64")
        if not fits:
            V.check(ex, "an integer literal above the int64 range is rejected", parts is None, assumed, detail=lambda: f"accepted as {code_points(ex, parts[0])!r}", scenario=sc)
            continue
        if parts is None:
            V.check(ex, "an integer literal inside the int64 range is accepted", False, assumed, detail=lambda: repr(res.ret), scenario=sc)
            continue
        code = code_points(ex, parts[0])
        ok = code[0] == "const" and isinstance(code[1], VAdt) and variant(ex, code[1]) == "Int"
        V.check(ex, "an integer literal denotes exactly that int", (code[1].fields[code[1].discr][0].bv == v) if ok else False, assumed, detail=lambda: repr(code), scenario=sc)


TARGETS = [
    dict(name="parse_chain", props=["C02", "C17", "C18", "C10", "C01"], func=entry, cfg=PARSE_CFG, make_args=make_args_for(t_chain), check=check_chain(False), max_paths=20000,
         what="`a op1 b op2 c` for every pair of the 14 binary operators: grouping by precedence / left associativity, post-order code, well-formed block, parameter set, node spans",
         bounds={"tokens": "5 (3 identifiers, 2 symbolic operators)"}),
    dict(name="parse_paren", props=["C02", "C18", "C10", "C01"], func=entry, cfg=PARSE_CFG, make_args=make_args_for(t_paren_chain), check=check_chain(True), max_paths=20000,
         what="`a op1 (b op2 c)`: parentheses override precedence for every operator pair", bounds={"tokens": "7"}),
    dict(name="parse_intlit", props=["C13", "C01"], func=entry, cfg=PARSE_CFG, make_args=make_args_for(t_intlit), check=check_intlit,
         what="an integer literal token with any u64 payload: the int64 it spells, or a syntax error above the int64 range", bounds={"payload": "all u64"}),
]


# ----------------------------------------------------------------------------- running emitted code on a reference machine
class AbsVal:
    """a run-time value in the reference run of emitted code: identifiers denote arbitrary values
    with two uninterpreted attributes (fails?, truthy?); operations build terms"""
    def __init__(self, term, fails=None, truthy=None):
        self.term, self.fails, self.truthy = term, fails, truthy

    def __repr__(self):
        return str(self.term)


def run_emitted(A, ex, points, env):
    """execute PreResolved code (labels in place) on the reference machine of t_vm's semantics;
    -> (result term | ('error', why), [names evaluated in order])"""
    labels = {p[1]: i for i, p in enumerate(points) if p[0] == "label"}
    stack, order, pc, steps = [], [], 0, 0

    def value_of_ident(name):
        if name not in env:
            env[name] = AbsVal(("var", name), z3.Bool(f"fails@{name}"), z3.Bool(f"truthy@{name}"))
            ex.assume(z3.Not(z3.And(env[name].fails, env[name].truthy)))
        order.append(name)
        return env[name]

    def pop():
        if not stack:
            raise Halt("underflow")
        v = stack.pop()
        if isinstance(v, tuple) and v[0] == "ident":
            return value_of_ident(v[1])
        return v

    class Halt(Exception):
        pass
    try:
        while pc < len(points):
            steps += 1
            if steps > 200:
                raise Halt("step budget")
            p = points[pc]
            pc += 1
            if p[0] == "label":
                continue
            if p[0] == "jmp":
                pc = labels[p[1]]
                continue
            if p[0] == "jmpcond":
                v = pop()
                when = p[1]
                if v.term[0] == "bool":
                    b = A.ask(v.term[1])
                    if b == when:
                        pc = labels[p[2]]
                elif v.fails is not None and A.ask(v.fails):
                    if not when:
                        pc = labels[p[2]]
                elif v.term[0] == "test":
                    raise Halt("inconsistent test value")
                else:
                    # neither a bool nor a failure: the VM ends the run with an error
                    return ("error", "condition is not a bool"), order
                continue
            name, f = p[1], p[2]
            if name == "Push":
                v = f[0]
                if isinstance(v, VAdt) and isinstance(v.discr, int) and variant(ex, v) == "Ident":
                    stack.append(("ident", getattr(v.fields[v.discr][0], "vid", None)))
                else:
                    stack.append(AbsVal(("const", getattr(v, "vid", None)), z3.BoolVal(False), None))
            elif name == "Pop":
                pop()
            elif name == "Dup":
                v = pop()
                stack.append(v)
                stack.append(v)
            elif name == "Test":
                v = pop()
                if v.fails is not None and A.ask(v.fails):
                    stack.append(v)
                else:
                    t = v.truthy if v.truthy is not None else z3.Bool(f"truthy@{v.term}")
                    stack.append(AbsVal(("bool", t), z3.BoolVal(False), t))
            elif name == "Not":
                v = pop()
                if v.fails is not None and A.ask(v.fails):
                    stack.append(v)
                elif v.term[0] == "bool":
                    stack.append(AbsVal(("bool", z3.Not(v.term[1])), z3.BoolVal(False), z3.Not(v.term[1])))
                else:
                    stack.append(AbsVal(("not", v.term), None, None))
            elif name in ("Or", "And"):
                b = pop()
                a = pop()
                stack.append(AbsVal((name.lower(), a.term, b.term), None, None))
            else:
                raise Halt("instruction outside the reference: " + name)
        v = pop()
        return v.term, order
    except Halt as h:
        return ("error", str(h)), order


def t_logic(kind):
    def build(ex):
        return [ident(ex, 0, "a"), mk_token(ex, 1, kind), ident(ex, 2, "b")]
    return build


def check_logic(kind):
    def check(res, V):
        ex = res.ex
        sc = scen_tokens(ex)
        if res.outcome != "return":
            (V.check(ex, "no panic", False, detail=res.msg, scenario=sc) if res.outcome == "panic" else V.inconclusive.append(f"{res.outcome}: {res.msg}"))
            return
        parts = result_parts(ex, res.ret)
        if parts is None:
            V.check(ex, "parses", False, detail=repr(res.ret), scenario=sc)
            return
        code = code_points(ex, parts[0])
        toks = ex.notes["toks"]
        na, nb = (getattr(toks[i].fields[0].fields[toks[i].fields[0].discr][0], "vid", None) for i in (0, 2))

        def ref(A):
            env = {}
            out, order = run_emitted(A, ex, code[1], env)
            a = env.get(na)
            facts = dict(a_fails=A.ask(a.fails) if a else None, a_truthy=A.ask(a.truthy) if a else None)
            return out, order, facts
        for assumed, (out, order, facts) in run_reference(ex, ref):
            af, at = facts["a_fails"], facts["a_truthy"]
            V.witness(f"a fails={af} truthy={at}")
            if kind == "OrOr":
                skip = at is True
            else:
                skip = (at is False) or (af is True)
            want_order = [na] if skip else [na, nb]
            V.check(ex, "the right operand is evaluated exactly when the left one does not decide", order == want_order, assumed,
                    detail=lambda: f"left fails={af} truthy={at}: evaluated {order}, expected {want_order}; code {code[1]}", scenario=sc)
            if kind == "OrOr" and at is True:
                V.check(ex, "a || b is true when a is truthy", out[0] == "bool" and z3.is_true(z3.simplify(z3.substitute(out[1], (z3.Bool(f'truthy@{na}'), z3.BoolVal(True))))), assumed, detail=lambda: repr(out), scenario=sc)
            elif not skip:
                V.check(ex, "otherwise the operator's absorption rule is applied to (a, b) in that order", out[0] == ("or" if kind == "OrOr" else "and") and out[2] == ("var", nb), assumed, detail=lambda: repr(out), scenario=sc)
    return check


def t_ternary(ex):
    return [ident(ex, 0, "c"), mk_token(ex, 1, "Question"), ident(ex, 2, "x"), mk_token(ex, 3, "Colon"), ident(ex, 4, "y")]


def check_ternary(res, V):
    ex = res.ex
    sc = scen_tokens(ex)
    if res.outcome != "return":
        (V.check(ex, "no panic", False, detail=res.msg, scenario=sc) if res.outcome == "panic" else V.inconclusive.append(f"{res.outcome}: {res.msg}"))
        return
    parts = result_parts(ex, res.ret)
    if parts is None:
        V.check(ex, "parses", False, detail=repr(res.ret), scenario=sc)
        return
    code = code_points(ex, parts[0])
    toks = ex.notes["toks"]
    nc, nx, ny = (getattr(toks[i].fields[0].fields[toks[i].fields[0].discr][0], "vid", None) for i in (0, 2, 4))
    fault = verify_block(code[1])
    V.check(ex, "emitted block is well-formed (labels, stack heights, one result)", fault is None, detail=lambda: f"{fault}: {code[1]}", scenario=sc)

    def ref(A):
        env = {}
        out, order = run_emitted(A, ex, code[1], env)
        c = env.get(nc)
        return out, order, (A.ask(c.fails) if c else None), (A.ask(c.truthy) if c else None)
    for assumed, (out, order, cf, ct) in run_reference(ex, ref):
        V.witness(f"c fails={cf} truthy={ct}")
        if cf:
            V.check(ex, "c ? x : y fails when c fails (neither branch is evaluated)", order == [nc] and out == ("var", nc), assumed,
                    detail=lambda: f"condition fails: evaluated {order}, result {out}", scenario=sc)
        elif ct:
            V.check(ex, "a truthy condition evaluates exactly x", order == [nc, nx] and out == ("var", nx), assumed, detail=lambda: f"evaluated {order}, result {out}", scenario=sc)
        else:
            V.check(ex, "a falsy condition evaluates exactly y", order == [nc, ny] and out == ("var", ny), assumed, detail=lambda: f"evaluated {order}, result {out}", scenario=sc)
    spans = []
    got = shape(ex, parts[1], spans)
    V.check(ex, "the tree is a conditional over (c, x, y)", got[0] == "cond" and [strip_paren(g) for g in got[1:]] == [("leaf", nc), ("leaf", nx), ("leaf", ny)], detail=lambda: repr(got), scenario=sc)
    V.check(ex, "the parameter set is exactly the identifiers", params_of(parts[0]) == sorted([nc, nx, ny]), detail=lambda: repr(params_of(parts[0])), scenario=sc)


TARGETS += [
    dict(name="parse_or", props=["C05", "C10", "C01"], func=entry, cfg=PARSE_CFG, make_args=make_args_for(t_logic("OrOr")), check=check_logic("OrOr"),
         what="`a || b`: the emitted block, run on the reference machine for every truthiness/failure of a: b is evaluated only when a is not truthy; true when a is truthy", bounds={"tokens": "3"}),
    dict(name="parse_and", props=["C05", "C10", "C01"], func=entry, cfg=PARSE_CFG, make_args=make_args_for(t_logic("AndAnd")), check=check_logic("AndAnd"),
         what="`a && b`: b is evaluated only when a is truthy", bounds={"tokens": "3"}),
    dict(name="parse_ternary", props=["C05", "C10", "C17", "C01"], func=entry, cfg=PARSE_CFG, make_args=make_args_for(t_ternary), check=check_ternary,
         what="`c ? x : y`: exactly one branch is evaluated, chosen by the truthiness of c; a failing c fails the expression", bounds={"tokens": "5"}),
]
