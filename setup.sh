#!/bin/sh
# Run once after a fresh restore, offline: pre-build the harness crate's dependencies for
# Kani and the native replay binary so that first check runs are warm. Idempotent.
set -e
cd "$(dirname "$0")"
export CARGO_NET_OFFLINE=true
mkdir -p .cache evidence replays
python3 -c "import harnesses; open('kani/src/gen.rs','w').write(harnesses.emit_rust())"
[ -f kani/Cargo.lock ] || cp /repo/Cargo.lock kani/Cargo.lock
# native replay binary (dev + release) against /repo as it is now
(cd kani && RUSTUP_TOOLCHAIN=nightly-2025-11-11 cargo build --offline --bin replay --target-dir ../.cache/native >/dev/null 2>&1 || true)
(cd kani && RUSTUP_TOOLCHAIN=nightly-2025-11-11 cargo build --offline --release --bin replay --target-dir ../.cache/native >/dev/null 2>&1 || true)
(cd kani && RUSTUP_TOOLCHAIN=nightly-2025-11-11 cargo build --offline --bin mreplay --target-dir ../.cache/native >/dev/null 2>&1 || true)
# MIR dump of /repo (second engine, mirsym): warms the dependency build of its target dir
# (also the dump of extensions/to_sql, whose target dir is separate, and the translator's example binary
# that confirms SQL counterexamples natively)
python3 mirsym/mirdump.py /repo .cache/mir-warm.mir .cache/mir-target .cache/mir-warm-sql.mir >/dev/null 2>&1 || true
(cd /repo && cargo build --offline -p rscel-to-sql --example cel2sql --target-dir /verif/.cache/native-sql >/dev/null 2>&1 || true)
# one tiny Kani run to confirm the tool chain works end to end
./check C10 --tier quick --no-evidence >/dev/null 2>&1 || true
echo "setup done"
