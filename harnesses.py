"""Harness table: one row per Kani proof harness (= one solver query).

The Rust side (kani/src/c*.rs) holds generic harness *bodies*; this table instantiates them
per concrete kind tuple and emits kani/src/gen.rs.  Every row records which property it
serves, in which tier it runs, its unwind bound, what is symbolic and which reachability
witnesses (kani::cover!) must come back SATISFIED for the run to count as non-vacuous.
"""

K = {  # code -> (rust type, human name, symbolic domain)
    "I": ("KI", "int", "all i64"),
    "U": ("KU", "uint", "all u64"),
    "F": ("KF", "double", "all f64 bit patterns"),
    "B": ("KB", "bool", "both"),
    "N": ("KN", "null", "-"),
    "S": ("KS", "string", "ASCII strings of 0..2 bytes (symbolic length and bytes)"),
    "Y": ("KY", "bytes", "byte strings of 0..2 bytes (symbolic length and bytes)"),
    "D": ("KD", "duration", "all valid chrono durations (secs, nanos)"),
    "T": ("KT", "timestamp", "instants within 2^17 s of the epoch, arbitrary nanoseconds"),
    "E": ("KE", "error", "the error value DivideByZero"),
    "Ty": ("KTy", "type", "the type value `int`"),
}
NUM = ["I", "U", "F", "B"]
SCALARS = ["I", "U", "F", "B", "N", "S", "Y", "D", "T", "E", "Ty"]

H = []


def add(name, prop, tier, unwind, body, inputs, need=None, cap=None, note=None, funcs=None, uw=None):
    unwind = uw or unwind
    H.append(
        dict(
            name=name,
            prop=prop,
            tier=tier,  # "quick" (also runs in thorough) or "thorough"
            unwind=unwind,
            body=body,
            inputs=inputs,
            need=need or [],
            cap=cap,
            note=note,
            funcs=funcs or [],
        )
    )


def kn(c):
    return K[c][1]


def kt(c):
    return K[c][0]


def dom(*cs):
    return {f"operand{i+1}:{kn(c)}": K[c][2] for i, c in enumerate(cs)}


def uwc(*cs):
    # construct_type matches the type name against up to 9-byte literals (memcmp loop)
    return max(uw(*cs), 12)


def uw(*cs):
    # strings/bytes: loops over <= 2 bytes (+ memcmp, + concatenation of two) -> 6; time: none
    return 6 if any(c in ("S", "Y") for c in cs) else 3


# ---------------------------------------------------------------- C03
OPS = [("add", "Add"), ("sub", "Sub"), ("mul", "Mul")]
MIXED = {("I", "U"), ("U", "I")}
for a in NUM:
    for b in NUM:
        for (on, oc) in OPS:
            need = []
            if a in "IU" and b in "IU":
                need = ["expect error"]
            tier = "quick"
            cap = None
            if on == "mul" and ("F" in (a, b) or (a, b) in MIXED):
                # double multiplication (two bit-blasted 53x53 multipliers) and the i128 product of
                # the int-with-uint form need 3-20 minutes each: thorough tier only
                tier, cap = "thorough", 1500
            add(f"c03_{on}_{kn(a)}_{kn(b)}", "C03", tier, 3,
                f"crate::c03::binop::<{kt(a)}, {kt(b)}>(Op::{oc})", dom(a, b), need=need, cap=cap,
                funcs=[f"<CelValue as {oc}>::{on}", "CelValue::type_prop", "CelValue::error_prop_or", "CelValue::mixed_ints"])
            if tier == "thorough":
                # quick stand-in: operands below 2^16 in magnitude plus the boundary set
                add(f"c03_{on}16_{kn(a)}_{kn(b)}", "C03", "quick", 3,
                    f"crate::c03::binop_bounded::<{kt(a)}, {kt(b)}>(Op::{oc}, 16)", dom(a, b),
                    note="integers bounded to |x| < 2^16 plus the boundary set; doubles unrestricted bit patterns with |exponent| small (see body)",
                    funcs=[f"<CelValue as {oc}>::{on}", "CelValue::type_prop"])
        for (on, oc) in [("div", "Div"), ("rem", "Rem")]:
            add(f"c03_{on}pred_{kn(a)}_{kn(b)}", "C03", "quick", 3,
                f"crate::c03::divrem_pred::<{kt(a)}, {kt(b)}>(Op::{oc})", dom(a, b),
                note="full width, error predicate only (no quotient equivalence)",
                funcs=[f"<CelValue as {oc}>::{on}", "CelValue::type_prop", "CelValue::mixed_ints"])
            if a in "IUB" and b in "IUB" and not (a == "B" and b == "B"):
                mixed = (a, b) in MIXED
                add(f"c03_{on}val_{kn(a)}_{kn(b)}", "C03", "thorough", 70 if mixed else 3,
                    f"crate::c03::divrem_val::<{kt(a)}, {kt(b)}>(Op::{oc}, 15)", dom(a, b),
                    note="value exactness for |a|,|b| < 2^15 plus the boundary set", cap=1500,
                    funcs=[f"<CelValue as {oc}>::{on}", "CelValue::type_prop"])
                if not mixed:
                    add(f"c03_{on}val8_{kn(a)}_{kn(b)}", "C03", "quick", 3,
                        f"crate::c03::divrem_val::<{kt(a)}, {kt(b)}>(Op::{oc}, 8)", dom(a, b),
                        note="value exactness for |a|,|b| < 2^8 plus the boundary set",
                        funcs=[f"<CelValue as {oc}>::{on}", "CelValue::type_prop"])
            elif "F" in (a, b):
                add(f"c03_{on}val_{kn(a)}_{kn(b)}", "C03", "thorough" if on == "div" else "quick", 3,
                    f"crate::c03::binop::<{kt(a)}, {kt(b)}>(Op::{oc})", dom(a, b), cap=1500,
                    funcs=[f"<CelValue as {oc}>::{on}", "CelValue::type_prop"])
for a in NUM:
    add(f"c03_neg_{kn(a)}", "C03", "quick", 3, f"crate::c03::neg::<{kt(a)}>()", dom(a),
        need=["expect error"] if a in "IU" else [], funcs=["<CelValue as Neg>::neg"])
# non-numeric operand combinations are errors (all five operators in one query per pair)
for a in SCALARS:
    for b in SCALARS:
        if a in NUM and b in NUM:
            continue
        tier = "quick" if (a in "IN" or b in "IN") and not ({a, b} & {"S", "Y", "T"}) else "thorough"
        add(f"c03_nonnum_{kn(a)}_{kn(b)}", "C03", tier, max(uw(a, b), 8),
            f"crate::c03::nonnum::<{kt(a)}, {kt(b)}>()", dom(a, b),
            note="non-numeric pairing: + - * / % must each be an error unless it is concatenation or time arithmetic",
            funcs=["<CelValue as Add/Sub/Mul/Div/Rem>"], cap=900)

# ---------------------------------------------------------------- C04
CMP = ["I", "U", "F", "B", "S", "Y", "D", "T"]
for a in SCALARS:
    for b in SCALARS:
        if a == "E" or b == "E":
            tier = "thorough"
        elif a in NUM and b in NUM:
            tier = "quick"
        elif a in "ND" and b in "IND":
            tier = "quick"
        else:
            tier = "thorough"
        need = []
        if (a in "IUF" and b in "IUF") or (a == b and a in CMP):
            need = ["less", "greater", "equal"]
        add(f"c04_pair_{kn(a)}_{kn(b)}", "C04", tier, uw(a, b),
            f"crate::c04::pair::<{kt(a)}, {kt(b)}>()", dom(a, b), need=need,
            funcs=["CelValue::ord", "CelValue::lt/le/gt/ge", "<CelValue as CelValueDyn>::eq", "CelValue::neq", "CelValue::type_prop"])
for a in SCALARS:
    add(f"c04_refl_{kn(a)}", "C04", "quick" if a in "IUFBNDE" else "thorough", uw(a),
        f"crate::c04::refl::<{kt(a)}>()", dom(a), funcs=["<CelValue as CelValueDyn>::eq"])
for (a, b, c) in [(x, y, z) for x in "IU" for y in "IU" for z in "IU"]:
    add(f"c04_triple_{kn(a)}_{kn(b)}_{kn(c)}", "C04", "quick", 3,
        f"crate::c04::triple::<{kt(a)}, {kt(b)}, {kt(c)}>()", dom(a, b, c), need=["chain a<b<c"],
        funcs=["CelValue::lt", "CelValue::ord", "<CelValue as CelValueDyn>::eq"])
for a in ["F", "B", "D", "S", "Y", "T"]:
    add(f"c04_triple_{kn(a)}_{kn(a)}_{kn(a)}", "C04", "quick" if a in "FBD" else "thorough", uw(a),
        f"crate::c04::triple::<{kt(a)}, {kt(a)}, {kt(a)}>()", dom(a, a, a),
        need=[] if a == "B" else ["chain a<b<c"], cap=900,
        funcs=["CelValue::lt", "CelValue::ord", "<CelValue as CelValueDyn>::eq"])
# mixed int/uint/double triples: an integer meets a double as its nearest double
for (a, b, c) in [("I", "F", "U"), ("F", "I", "F"), ("U", "F", "I")]:
    pass  # not claimed: transitivity across the rounding int->double does not hold mathematically

# ---------------------------------------------------------------- C05
for a in SCALARS:
    add(f"c05_truthy_{kn(a)}", "C05", "quick" if a not in "SYT" else "thorough", uw(a),
        f"crate::c05::truthiness::<{kt(a)}>()", dom(a),
        funcs=["<CelValue as CelValueDyn>::is_truthy", "<CelValue as Not>::not", "CelValue::or", "CelValue::and"])
    if a != "E":
        add(f"c05_boolctor_{kn(a)}", "C05", "quick" if a not in "SYT" else "thorough", uwc(a),
            f"crate::c05::bool_ctor::<{kt(a)}>()", dom(a), funcs=["construct_type(\"bool\")", "bool_type::dispatch"])
for a in SCALARS:
    for b in SCALARS:
        quick = a in "IUFBNE" and b in "IUFBNE"
        add(f"c05_absorb_{kn(a)}_{kn(b)}", "C05", "quick" if quick else "thorough", uw(a, b),
            f"crate::c05::absorb::<{kt(a)}, {kt(b)}>()", dom(a, b), funcs=["CelValue::or", "CelValue::and"])

# ---------------------------------------------------------------- C06
for a in ["S", "Y"]:
    add(f"c06_concat_{kn(a)}", "C06", "quick", 8, f"crate::c06::concat::<{kt(a)}>()", dom(a, a),
        need=["longest concatenation", "empty concatenation"], funcs=["<CelValue as Add>::add"])
    add(f"c06_size_{kn(a)}", "C06", "quick", 6, f"crate::c06::size_of::<{kt(a)}>()", dom(a),
        need=["longest operand"], funcs=["size::dispatch"])
add("c06_size_utf8", "C06", "quick", 6, "crate::c06::size_utf8()",
    {"string": "one 2-byte UTF-8 scalar (all of U+0080..U+07FF) optionally followed by one ASCII byte"},
    need=["three bytes"], funcs=["size::dispatch"])
for a in ["I", "U", "F", "B", "N", "D", "S"]:
    for b in ["I", "U", "F", "B", "N", "D"]:
        add(f"c06_scalarcontainer_{kn(a)}_{kn(b)}", "C06", "quick" if a in "ISN" and b in "IBN" else "thorough", uw(a, b),
            f"crate::c06::scalar_container::<{kt(a)}, {kt(b)}>()", dom(a, b), funcs=["CelValue::in_", "CelValue::index"])

# lists of at most one element (B1): concrete index per query, symbolic element
for i in [-3, -2, -1, 0, 1, 2, -9223372036854775808, 9223372036854775807]:
    nm = str(i).replace("-", "m")
    add(f"c06_list1_index_int_{nm}", "C06", "quick" if abs(i) <= 2 else "thorough", 4, f"crate::c06::list1_index_int({i}i64)" if i != -9223372036854775808 else "crate::c06::list1_index_int(i64::MIN)",
        {"list": "[x] with x any int", "index": f"{i} (concrete)"}, funcs=["CelValue::index"], cap=600)
for i in [0, 1, 18446744073709551615]:
    add(f"c06_list1_index_uint_{i}", "C06", "quick" if i < 2 else "thorough", 4, f"crate::c06::list1_index_uint({i}u64)",
        {"list": "[x] with x any int", "index": f"{i}u (concrete)"}, funcs=["CelValue::index"], cap=600)
add("c06_list0_index", "C06", "quick", 4, "crate::c06::list0_index()", {"list": "[]", "index": "all i64 / all u64"}, need=["negative index"], funcs=["CelValue::index"], cap=600)
for a in ["F", "B", "N", "S", "D"]:
    add(f"c06_list1_index_{kn(a)}", "C06", "quick" if a in "FBN" else "thorough", uw(a), f"crate::c06::list1_index_kind::<{kt(a)}>()",
        {"list": "[x] with x any int", "index": K[a][2]}, funcs=["CelValue::index"], cap=600)
add("c06_list_in", "C06", "quick", 4, "crate::c06::list_in()", {"needle": "all i64", "list": "[x] with x any int, and []"}, need=["member", "not a member"], funcs=["CelValue::in_"], cap=600)
add("c06_list_size", "C06", "thorough", 4, "crate::c06::list_size()", {"list": "[x] and []"}, funcs=["size::dispatch"], cap=600)

# ---------------------------------------------------------------- C10
add("c10_jump_target", "C10", "quick", 3, "crate::c10::jump_target()",
    {"pc": "1..=len", "dist": "all i32", "len": "0..=isize::MAX"},
    need=["accepted backward target", "accepted forward target", "target exactly at the end", "target before the block", "target past the end"],
    funcs=["Interpreter::checked_jump_target"])

# ---------------------------------------------------------------- C12
for ref in (True, False):
    sfx = "ref" if ref else "owned"
    r = "true" if ref else "false"
    fn = "<CelValue as From<&serde_json::Value>>::from" if ref else "<CelValue as From<serde_json::Value>>::from"
    add(f"c12_json_i64_{sfx}", "C12", "quick", 3, f"crate::c12::json_i64({r})", {"number": "all i64"}, need=["negative"], funcs=[fn])
    add(f"c12_json_u64_{sfx}", "C12", "quick", 3, f"crate::c12::json_u64({r})", {"number": "all u64"}, need=["above int range"], funcs=[fn])
    add(f"c12_json_f64_{sfx}", "C12", "quick", 3, f"crate::c12::json_f64({r})", {"number": "all f64 (non-finite rejected by JSON)"}, need=["finite double"], funcs=[fn])
    add(f"c12_json_misc_{sfx}", "C12", "quick", 3, f"crate::c12::json_misc({r})", {"bool": "both", "null": "-"}, funcs=[fn])
    add(f"c12_json_str_{sfx}", "C12", "quick", 6, f"crate::c12::json_str({r})", {"string": K["S"][2]}, need=["longest"], funcs=[fn])

# ---------------------------------------------------------------- C14
for a in SCALARS:
    if a == "E":
        continue
    q = "quick" if a in "IUFBN" else "thorough"
    add(f"c14_int_{kn(a)}", "C14", q, uwc(a), f"crate::c14::to_int::<{kt(a)}>()", dom(a), funcs=["construct_type", "int_type::dispatch"],
        need=["uint above the int range"] if a == "U" else [])
    if a != "T":
        add(f"c14_uint_{kn(a)}", "C14", q, uwc(a), f"crate::c14::to_uint::<{kt(a)}>()", dom(a), funcs=["construct_type", "uint_type::dispatch"],
            need=["negative int"] if a == "I" else [])
        add(f"c14_double_{kn(a)}", "C14", q, uwc(a), f"crate::c14::to_double::<{kt(a)}>(\"double\")", dom(a), funcs=["construct_type", "double_type::dispatch"])
    add(f"c14_typeof_{kn(a)}", "C14", q, uwc(a), f"crate::c14::type_of::<{kt(a)}>()", dom(a), funcs=["construct_type", "type_type::dispatch", "CelValue::as_type"])
    add(f"c14_dyn_{kn(a)}", "C14", q, uwc(a), f"crate::c14::dyn_identity::<{kt(a)}>()", dom(a), funcs=["construct_type", "dyn_type::dispatch"])
for a in NUM:
    add(f"c14_float_alias_{kn(a)}", "C14", "thorough", 12, f"crate::c14::to_double::<{kt(a)}>(\"float\")", dom(a), funcs=["construct_type"])
    for (ctor, ty) in [("int", "int"), ("uint", "uint"), ("double", "float"), ("bool", "bool")]:
        if (ctor, a) in (("int", "U"), ("uint", "I")):
            continue  # fallible conversion followed by type(): does not finish (15 min)
        add(f"c14_typeofctor_{ctor}_{kn(a)}", "C14", "quick", 12,
            f"crate::c14::type_of_ctor::<{kt(a)}>(\"{ctor}\", \"{ty}\")", dom(a), need=["conversion accepted"], funcs=["construct_type", "type_type::dispatch"])
add("c14_bytes_string_roundtrip", "C14", "quick", 12, "crate::c14::bytes_string_roundtrip()", {"s": K["S"][2]}, need=["longest"],
    funcs=["bytes_type::dispatch", "string_type::dispatch"])
add("c14_string_of_bytes", "C14", "quick", 12, "crate::c14::string_of_bytes()", {"b": K["Y"][2]}, need=["two-byte scalar", "invalid UTF-8"],
    funcs=["string_type::dispatch"])
add("c14_duration_secs", "C14", "quick", 4, "crate::c14::duration_inner1()", {"secs": "all i64"}, need=["out of range seconds"], funcs=["duration_type::methods::duration_ir (typed overload)"])
add("c14_duration_secs_nanos", "C14", "quick", 4, "crate::c14::duration_inner2()", {"secs": "all i64", "nanos": "all i64"}, need=["nanos above u32", "valid pair"], funcs=["duration_type::methods::duration_iir (typed overload)"])
for a in "IU":
    add(f"c14_timestamp_{kn(a)}", "C14", "quick", 12, f"crate::c14::timestamp_ctor::<{kt(a)}>()", dom(a),
        need=["representable instant"] + (["uint above the int range"] if a == "U" else []), funcs=["timestamp_type::dispatch"], cap=900)

# ---------------------------------------------------------------- C15
MATH_ARGS = ["I", "U", "F", "B", "N", "S", "D"]
for a in MATH_ARGS:
    q = "quick" if a in "IUFN" else "thorough"
    add(f"c15_abs_{kn(a)}", "C15", q, uw(a), f"crate::c15::abs::<{kt(a)}>()", dom(a), need=["most negative int"] if a == "I" else [], funcs=["math::abs::dispatch"])
    add(f"c15_sqrt_{kn(a)}", "C15", q, uw(a), f"crate::c15::sqrt::<{kt(a)}>()", dom(a), funcs=["math::sqrt::dispatch"])
    for (rn, rc) in [("ceil", "Ceil"), ("floor", "Floor"), ("round", "Round")]:
        add(f"c15_{rn}_{kn(a)}", "C15", q, uw(a), f"crate::c15::rounding::<{kt(a)}>(crate::c15::Rnd::{rc})", dom(a),
            need=["non-integral operand"] if a == "F" else [], funcs=[f"math::{rn}::dispatch"])
    add(f"c15_lg_{kn(a)}", "C15", q, uw(a), f"crate::c15::ilog::<{kt(a)}>(false)", dom(a),
        need=["non-positive operand", "positive operand"] if a in "IU" else [], funcs=["math::lg::dispatch"])
    add(f"c15_log_{kn(a)}", "C15", q, max(uw(a), 22), f"crate::c15::ilog::<{kt(a)}>(true)", dom(a),
        need=["non-positive operand", "positive operand"] if a in "IU" else [], funcs=["math::log::dispatch"], cap=900)
for (sn, sc) in [("int_int", "II"), ("int_uint", "IU"), ("uint_int", "UI"), ("uint_uint", "UU")]:
    add(f"c15_powpred_{sn}", "C15", "quick", 4, f"crate::c15::pow_inner_pred(crate::c15::PowSig::{sc})",
        {"base": "all 64-bit values", "exponent": "every value outside 0..=u32::MAX, plus 0 and 1"},
        need=["exponent outside 0..=u32::MAX", "exponent 0 or 1"], funcs=[f"math::pow::methods::pow_{sc.lower()}r (typed overload)", "math::pow::exponent"], cap=900)
    pf = [f"math::pow::methods::pow_{sc.lower()}r (typed overload)"]
    add(f"c15_powval_{sn}", "C15", "quick", 10, f"crate::c15::pow_inner_val(crate::c15::PowSig::{sc}, 20, 6)",
        {"base": "|base| < 2^6", "exponent": "0..=20"}, need=["largest exponent", "overflow"], funcs=pf, cap=900,
        note="exact power, or an error when it overflows (63^20 does); wider bases/exponents: thorough tier")
    for (tag, me, bb) in [("a", 3, 10), ("c", 4, 8), ("e", 70, 4)]:
        add(f"c15_powval{tag}_{sn}", "C15", "thorough", 10, f"crate::c15::pow_inner_val(crate::c15::PowSig::{sc}, {me}, {bb})",
            {"base": f"|base| < 2^{bb}", "exponent": f"0..={me}"}, need=["largest exponent"], funcs=pf, cap=1500)
for (sn, sb) in [("int", "true"), ("uint", "false")]:
    add(f"c15_powfloatexp_{sn}", "C15", "quick", 4, f"crate::c15::pow_inner_float_exp({sb})",
        {"base": "all 64-bit values", "exponent": "every double that is not a valid exponent, plus 0.0 and 1.0"},
        need=["fractional exponent", "NaN exponent", "exponent 0.0 or 1.0"], funcs=["math::pow::float_exponent", "math::pow::methods::pow_idr/pow_udr (typed overloads)"], cap=900)
# pow, and every call with two or more arguments (arity checks included), goes through
# `let [a0, a1] = args.try_into()` on a heap Vec of two CelValues; CBMC then loses the
# elements' discriminants and unrolls the recursive drop glue of every variant: does not finish
# (15 min cap). Not decided here - see DESIGN.md 3/C15.

# ---------------------------------------------------------------- C16
# base instants (epoch seconds) around which timestamps are explored in windows of +-2^17 s
BASES = [
    ("epoch", 0, "1970-01-01"),
    ("max", 8210266876799 - (1 << 16), "upper end of chrono's range (year 262142)"),
    ("min", -8334601228800 + (1 << 16), "lower end of chrono's range (year -262143)"),
    ("nsmax", 9223372036, "2262-04-11: end of the i64-nanosecond window"),
    ("nsmin", -9223372037, "1677-09-21: start of the i64-nanosecond window"),
    ("leap2000", 951782400, "2000-02-29 (leap day in a century year)"),
    ("y2100", 4102444800, "2100-01-01 (non-leap century year)"),
    ("y10000", 253402300800, "10000-01-01 (five-digit year rollover)"),
    ("y0001", -62135596800, "0001-01-01 (start of the common era)"),
    ("y2300", 10413792000, "2300-01-01 (outside the i64-nanosecond window)"),
    ("leap2024", 1709164800, "2024-02-29"),
    ("y1900", -2203891200, "1900-03-01 (after the skipped leap day of 1900)"),
    ("newyear", 1735689600, "2025-01-01 (year boundary)"),
]
QUICK_BASES = {"epoch", "max", "nsmax"}
WIN_TXT = "window of +-2^17 s around {} ({}), arbitrary nanoseconds"
TS_FUNCS = ["<CelValue as Add>::add", "<CelValue as Sub>::sub", "CelValue::checked_time_result"]
add("c16_range_constants", "C16", "quick", 3, "crate::c16::range_constants()", {"secs": "all i64"},
    need=["representable", "not representable"], funcs=[], note="validates the numeric range bounds the other C16 oracles use against chrono itself")
for (bn, bv, bd) in BASES:
    q = "quick" if bn in QUICK_BASES else "thorough"
    for (sn, sc) in [("tplusd", "TplusD"), ("dplust", "DplusT"), ("tminusd", "TminusD")]:
        qq = q if sn != "dplust" or bn == "epoch" else "thorough"
        add(f"c16_range_{sn}_{bn}", "C16", qq, 3, f"crate::c16::ts_arith_range(crate::c16::Shape::{sc}, {bv})",
            {"t": WIN_TXT.format(bv, bd), "d": K["D"][2]}, need=["representable result", "result outside the representable range"], cap=900, funcs=TS_FUNCS,
            note="timestamp or error exactly by the representable range; never a panic")
        add(f"c16_value_{sn}_{bn}", "C16", qq, 3, f"crate::c16::ts_arith_value(crate::c16::Shape::{sc}, {bv})",
            {"t": WIN_TXT.format(bv, bd), "d": "|d| < 2^17 s, arbitrary nanoseconds"}, need=["representable result with a nanosecond carry or borrow"], cap=900, funcs=TS_FUNCS)
    add(f"c16_tsroundtrip_{bn}", "C16", q, 3, f"crate::c16::ts_roundtrip({bv})",
        {"t": WIN_TXT.format(bv, bd), "d": "|d| < 2^17 s, arbitrary nanoseconds"}, need=["round trip"], cap=900, funcs=TS_FUNCS)
    add(f"c16_tsdiff_{bn}_{bn}", "C16", q, 3, f"crate::c16::ts_diff({bv}, {bv})",
        {"t1,t2": WIN_TXT.format(bv, bd)}, need=["nanosecond borrow"], cap=900, funcs=TS_FUNCS)
    add(f"c16_tsdiffroundtrip_{bn}_{bn}", "C16", q, 3, f"crate::c16::ts_diff_roundtrip({bv}, {bv})",
        {"t1,t2": WIN_TXT.format(bv, bd)}, need=["round trip"], cap=900, funcs=TS_FUNCS)
    add(f"c16_tsorder_{bn}_{bn}", "C16", q, 3, f"crate::c16::ts_order({bv}, {bv})",
        {"t1,t2": WIN_TXT.format(bv, bd)}, need=["earlier", "later"], cap=900, funcs=["CelValue::ord", "CelValue::lt/le/gt/ge", "<CelValue as CelValueDyn>::eq"])
    add(f"c16_calendar_{bn}", "C16", q, 3, f"crate::c16::calendar_utc({bv})",
        {"t": WIN_TXT.format(bv, bd)}, need=["last second of a day"] + (["leap day"] if bn == "leap2000" else []), cap=900,
        funcs=["time_funcs::get_full_year/get_month/get_date/get_day_of_month/get_day_of_year/get_day_of_week/get_hours/get_minutes/get_seconds/get_milliseconds (UTC overloads)"],
        note="all ten UTC accessors against an independent civil-from-days computation")
# cross-window pairs: differences and order between far-apart instants
CROSS = [("epoch", "max"), ("min", "max"), ("max", "min"), ("epoch", "nsmax"), ("nsmin", "nsmax"), ("y2300", "epoch"), ("y2300", "nsmax"), ("y0001", "y10000"), ("leap2000", "y2100")]
BV = {b[0]: b[1] for b in BASES}
BD = {b[0]: b[2] for b in BASES}
for (b1, b2) in CROSS:
    q = "quick" if (b1, b2) in (("epoch", "max"), ("y2300", "epoch")) else "thorough"
    ins = {"t1": WIN_TXT.format(BV[b1], BD[b1]), "t2": WIN_TXT.format(BV[b2], BD[b2])}
    add(f"c16_tsdiff_{b1}_{b2}", "C16", q, 3, f"crate::c16::ts_diff({BV[b1]}, {BV[b2]})", ins, need=["nanosecond borrow"], cap=900, funcs=TS_FUNCS)
    add(f"c16_tsdiffroundtrip_{b1}_{b2}", "C16", "thorough", 3, f"crate::c16::ts_diff_roundtrip({BV[b1]}, {BV[b2]})", ins, need=["round trip"], cap=900, funcs=TS_FUNCS)
    add(f"c16_tsorder_{b1}_{b2}", "C16", q, 3, f"crate::c16::ts_order({BV[b1]}, {BV[b2]})", ins, need=[], cap=900, funcs=["CelValue::ord", "CelValue::lt/le/gt/ge"])
for (sn, sc) in [("dplusd", "DplusD"), ("dminusd", "DminusD")]:
    add(f"c16_arith_{sn}", "C16", "quick", 3, f"crate::c16::dur_arith(crate::c16::Shape::{sc})", {"d1,d2": K["D"][2]},
        need=["representable result", "result outside the representable range"], funcs=TS_FUNCS)
add("c16_dur_roundtrip", "C16", "quick", 3, "crate::c16::dur_roundtrip()", {"d1,d2": K["D"][2]}, need=["round trip"], funcs=TS_FUNCS)
add("c16_dur_accessors", "C16", "quick", 3, "crate::c16::dur_accessors()", {"d": K["D"][2]},
    need=["negative duration with a fraction", "positive duration"], cap=900,
    funcs=["time_funcs::get_hours::dispatch", "time_funcs::get_minutes::dispatch", "time_funcs::get_seconds::dispatch", "time_funcs::get_milliseconds::dispatch"])
add("c16_dur_order", "C16", "quick", 3, "crate::c16::dur_order()", {"d1,d2": K["D"][2]}, need=["earlier"], funcs=["CelValue::lt", "CelValue::ord"])

# ---------------------------------------------------------------- C01
for a in SCALARS:
    for b in SCALARS:
        quick = (a in "IUFB" and b in "IUFB") or (a in "DT" and b in "DT")
        add(f"c01_binops_{kn(a)}_{kn(b)}", "C01", "quick" if quick else "thorough", uw(a, b),
            f"crate::c01::binops::<{kt(a)}, {kt(b)}>()", dom(a, b), need=["all binary operators returned"],
            # a timestamp on the right with the full range of instants does not finish (B3): these two pairs are
            # bug hunting only - they report a counterexample quickly when there is one and are
            # inconclusive otherwise, so they get the short cap
            cap=300 if (a, b) in (("D", "T"), ("T", "T")) else 900,
            funcs=["<CelValue as Add/Sub/Mul/Div/Rem>", "CelValue::lt/le/gt/ge/neq/or/and/in_/index", "<CelValue as CelValueDyn>::eq"])
    add(f"c01_unops_{kn(a)}", "C01", "quick" if a in "IUFBNE" else "thorough", uw(a),
        f"crate::c01::unops::<{kt(a)}>()", dom(a), need=["all unary operators returned"],
        funcs=["<CelValue as Neg>::neg", "<CelValue as Not>::not", "is_truthy", "as_type"])
for a in ["I", "U", "F", "B", "N", "S", "D", "T", "E"]:
    for (mn, mc) in [("abs", "Abs"), ("sqrt", "Sqrt"), ("log", "Log"), ("lg", "Lg"), ("ceil", "Ceil"), ("floor", "Floor"), ("round", "Round")]:
        add(f"c01_{mn}_{kn(a)}", "C01", "quick" if a in "IUF" else "thorough", uw(a),
            f"crate::c01::math1::<{kt(a)}>(crate::c01::Math::{mc})", dom(a), need=["built-in returned"], funcs=[f"math::{mn}::dispatch"])
    # `duration` is missing here: its dispatcher has two argument slots (B1); its typed overloads
    # are checked under C14
    for ctor in ["int", "uint", "double", "bool", "string", "bytes", "timestamp", "type", "dyn"]:
        if ctor == "string" and a in "IUFDT":
            continue  # number/time formatting is outside reach (DESIGN 3, C14)
        if ctor in ("duration", "timestamp") and a == "S":
            continue  # duration/timestamp parsing of text is outside reach
        add(f"c01_ctor_{ctor}_{kn(a)}", "C01", "quick" if a in "IUF" and ctor in ("int", "uint", "double", "bool", "timestamp") else "thorough", uwc(a),
            f"crate::c01::construct::<{kt(a)}>(\"{ctor}\")", dom(a), need=["constructor returned"], cap=900, funcs=["construct_type", f"{ctor}_type::dispatch"])
add("c01_jump_total", "C01", "quick", 3, "crate::c01::jump_total()", {"pc": "all usize", "dist": "all i32", "len": "all usize"},
    need=["jump accepted", "jump rejected"], funcs=["Interpreter::checked_jump_target"])
for a in ["S", "Y", "I", "N"]:
    add(f"c01_size_{kn(a)}", "C01", "quick" if a in "IN" else "thorough", uw(a), f"crate::c01::size_total::<{kt(a)}>()", dom(a), need=["size returned"], funcs=["size::dispatch"])


BY_NAME = {h["name"]: h for h in H}
assert len(BY_NAME) == len(H), "duplicate harness names"


def emit_rust():
    out = [
        "// @generated by /verif/harnesses.py - do not edit; `./check` regenerates it on every run.",
        "#![allow(non_snake_case)]",
        "use crate::kinds::*;",
        "use crate::spec::Op;",
        "",
    ]
    for h in H:
        out.append(f"harness!({h['name']}, {h['unwind']}, {{ {h['body']} }});")
    out.append("")
    out.append("pub const ALL: &[(&str, fn())] = &[")
    for h in H:
        out.append(f"    (\"{h['name']}\", {h['name']}),")
    out.append("];")
    return "\n".join(out) + "\n"


def select(prop, tier):
    return [h for h in H if h["prop"] == prop and (tier == "thorough" or h["tier"] == "quick")]


if __name__ == "__main__":
    import collections, sys
    c = collections.Counter((h["prop"], h["tier"]) for h in H)
    for k in sorted(c):
        print(k, c[k])
    print("total", len(H))
