"""Harness table: one row per Kani proof harness (= one solver query).

The Rust side (kani/src/c*.rs) holds generic harness *bodies*; this table instantiates them
per concrete kind tuple and emits kani/src/gen.rs.  Every row records which property it
serves, in which tier it runs, its unwind bound, what is symbolic and which reachability
witnesses (kani::cover!) must come back SATISFIED for the run to count as non-vacuous.
"""

K = {  # code -> (rust type, human name, symbolic domain)
    "I": ("KI", "int", "all i64"),
    "U": ("KU", "uint", "all u64"),
    "F": ("KF", "double", "all f64 bit patterns"),
    "B": ("KB", "bool", "both"),
    "N": ("KN", "null", "-"),
    "S": ("KS", "string", "ASCII strings of 0..2 bytes (symbolic length and bytes)"),
    "Y": ("KY", "bytes", "byte strings of 0..2 bytes (symbolic length and bytes)"),
    "D": ("KD", "duration", "all valid chrono durations (secs, nanos)"),
    "T": ("KT", "timestamp", "all representable whole-second instants"),
    "E": ("KE", "error", "the error value DivideByZero"),
    "Ty": ("KTy", "type", "the type value `int`"),
}
NUM = ["I", "U", "F", "B"]
SCALARS = ["I", "U", "F", "B", "N", "S", "Y", "D", "T", "E", "Ty"]

H = []


def add(name, prop, tier, unwind, body, inputs, need=None, cap=None, note=None, funcs=None):
    H.append(
        dict(
            name=name,
            prop=prop,
            tier=tier,  # "quick" (also runs in thorough) or "thorough"
            unwind=unwind,
            body=body,
            inputs=inputs,
            need=need or [],
            cap=cap,
            note=note,
            funcs=funcs or [],
        )
    )


def kn(c):
    return K[c][1]


def kt(c):
    return K[c][0]


def dom(*cs):
    return {f"operand{i+1}:{kn(c)}": K[c][2] for i, c in enumerate(cs)}


def uwc(*cs):
    # construct_type matches the type name against up to 9-byte literals (memcmp loop)
    return max(uw(*cs), 12)


def uw(*cs):
    # strings/bytes: loops over <= 2 bytes (+ memcmp, + concatenation of two) -> 6; time: none
    return 6 if any(c in ("S", "Y") for c in cs) else 3


# ---------------------------------------------------------------- C03
OPS = [("add", "Add"), ("sub", "Sub"), ("mul", "Mul")]
for a in NUM:
    for b in NUM:
        tier = "quick"
        for (on, oc) in OPS:
            need = []
            if a in "IU" and b in "IU":
                need = ["expect error"]
            add(f"c03_{on}_{kn(a)}_{kn(b)}", "C03", tier, 3,
                f"crate::c03::binop::<{kt(a)}, {kt(b)}>(Op::{oc})", dom(a, b), need=need,
                funcs=[f"<CelValue as {oc}>::{on}", "CelValue::type_prop", "CelValue::error_prop_or"])
        for (on, oc) in [("div", "Div"), ("rem", "Rem")]:
            add(f"c03_{on}pred_{kn(a)}_{kn(b)}", "C03", "quick", 3,
                f"crate::c03::divrem_pred::<{kt(a)}, {kt(b)}>(Op::{oc})", dom(a, b),
                note="full width, error predicate only (no quotient equivalence)",
                funcs=[f"<CelValue as {oc}>::{on}", "CelValue::type_prop"])
            if a in "IUB" and b in "IUB" and not (a == "B" and b == "B"):
                add(f"c03_{on}val_{kn(a)}_{kn(b)}", "C03", "thorough", 3,
                    f"crate::c03::divrem_val::<{kt(a)}, {kt(b)}>(Op::{oc}, 15)", dom(a, b),
                    note="value exactness for |a|,|b| < 2^15 plus the boundary set", cap=900,
                    funcs=[f"<CelValue as {oc}>::{on}", "CelValue::type_prop"])
                add(f"c03_{on}val8_{kn(a)}_{kn(b)}", "C03", "quick", 3,
                    f"crate::c03::divrem_val::<{kt(a)}, {kt(b)}>(Op::{oc}, 8)", dom(a, b),
                    note="value exactness for |a|,|b| < 2^8 plus the boundary set",
                    funcs=[f"<CelValue as {oc}>::{on}", "CelValue::type_prop"])
            elif "F" in (a, b):
                add(f"c03_{on}val_{kn(a)}_{kn(b)}", "C03", "quick", 3,
                    f"crate::c03::binop::<{kt(a)}, {kt(b)}>(Op::{oc})", dom(a, b),
                    funcs=[f"<CelValue as {oc}>::{on}", "CelValue::type_prop"])
for a in NUM:
    add(f"c03_neg_{kn(a)}", "C03", "quick", 3, f"crate::c03::neg::<{kt(a)}>()", dom(a),
        need=["expect error"] if a in "IU" else [], funcs=["<CelValue as Neg>::neg"])
# non-numeric operand combinations are errors (all five operators in one query per pair)
for a in SCALARS:
    for b in SCALARS:
        if a in NUM and b in NUM:
            continue
        tier = "quick" if (a in "IN" or b in "IN") and not ({a, b} & {"S", "Y", "T"}) else "thorough"
        add(f"c03_nonnum_{kn(a)}_{kn(b)}", "C03", tier, max(uw(a, b), 8),
            f"crate::c03::nonnum::<{kt(a)}, {kt(b)}>()", dom(a, b),
            note="non-numeric pairing: + - * / % must each be an error unless it is concatenation or time arithmetic",
            funcs=["<CelValue as Add/Sub/Mul/Div/Rem>"], cap=900)

# ---------------------------------------------------------------- C04
CMP = ["I", "U", "F", "B", "S", "Y", "D", "T"]
for a in SCALARS:
    for b in SCALARS:
        if a == "E" or b == "E":
            tier = "thorough"
        elif a in NUM and b in NUM:
            tier = "quick"
        elif a in "ND" and b in "IND":
            tier = "quick"
        else:
            tier = "thorough"
        need = []
        if (a in "IUF" and b in "IUF") or (a == b and a in CMP):
            need = ["less", "greater", "equal"]
        add(f"c04_pair_{kn(a)}_{kn(b)}", "C04", tier, uw(a, b),
            f"crate::c04::pair::<{kt(a)}, {kt(b)}>()", dom(a, b), need=need,
            funcs=["CelValue::ord", "CelValue::lt/le/gt/ge", "<CelValue as CelValueDyn>::eq", "CelValue::neq", "CelValue::type_prop"])
for a in SCALARS:
    add(f"c04_refl_{kn(a)}", "C04", "quick" if a in "IUFBNDE" else "thorough", uw(a),
        f"crate::c04::refl::<{kt(a)}>()", dom(a), funcs=["<CelValue as CelValueDyn>::eq"])
for (a, b, c) in [(x, y, z) for x in "IU" for y in "IU" for z in "IU"]:
    add(f"c04_triple_{kn(a)}_{kn(b)}_{kn(c)}", "C04", "quick", 3,
        f"crate::c04::triple::<{kt(a)}, {kt(b)}, {kt(c)}>()", dom(a, b, c), need=["chain a<b<c"],
        funcs=["CelValue::lt", "CelValue::ord", "<CelValue as CelValueDyn>::eq"])
for a in ["F", "B", "D", "S", "Y", "T"]:
    add(f"c04_triple_{kn(a)}_{kn(a)}_{kn(a)}", "C04", "quick" if a in "FBD" else "thorough", uw(a),
        f"crate::c04::triple::<{kt(a)}, {kt(a)}, {kt(a)}>()", dom(a, a, a),
        need=[] if a == "B" else ["chain a<b<c"], cap=900,
        funcs=["CelValue::lt", "CelValue::ord", "<CelValue as CelValueDyn>::eq"])
# mixed int/uint/double triples: an integer meets a double as its nearest double
for (a, b, c) in [("I", "F", "U"), ("F", "I", "F"), ("U", "F", "I")]:
    pass  # not claimed: transitivity across the rounding int->double does not hold mathematically

# ---------------------------------------------------------------- C05
for a in SCALARS:
    add(f"c05_truthy_{kn(a)}", "C05", "quick" if a not in "SYT" else "thorough", uw(a),
        f"crate::c05::truthiness::<{kt(a)}>()", dom(a),
        funcs=["<CelValue as CelValueDyn>::is_truthy", "<CelValue as Not>::not", "CelValue::or", "CelValue::and"])
    if a != "E":
        add(f"c05_boolctor_{kn(a)}", "C05", "quick" if a not in "SYT" else "thorough", uwc(a),
            f"crate::c05::bool_ctor::<{kt(a)}>()", dom(a), funcs=["construct_type(\"bool\")", "bool_type::dispatch"])
for a in SCALARS:
    for b in SCALARS:
        quick = a in "IUFBNE" and b in "IUFBNE"
        add(f"c05_absorb_{kn(a)}_{kn(b)}", "C05", "quick" if quick else "thorough", uw(a, b),
            f"crate::c05::absorb::<{kt(a)}, {kt(b)}>()", dom(a, b), funcs=["CelValue::or", "CelValue::and"])

# ---------------------------------------------------------------- C06
for a in ["S", "Y"]:
    add(f"c06_concat_{kn(a)}", "C06", "quick", 8, f"crate::c06::concat::<{kt(a)}>()", dom(a, a),
        need=["longest concatenation", "empty concatenation"], funcs=["<CelValue as Add>::add"])
    add(f"c06_size_{kn(a)}", "C06", "quick", 6, f"crate::c06::size_of::<{kt(a)}>()", dom(a),
        need=["longest operand"], funcs=["size::dispatch"])
add("c06_size_utf8", "C06", "quick", 6, "crate::c06::size_utf8()",
    {"string": "one 2-byte UTF-8 scalar (all of U+0080..U+07FF) optionally followed by one ASCII byte"},
    need=["three bytes"], funcs=["size::dispatch"])
for a in ["I", "U", "F", "B", "N", "D", "S"]:
    for b in ["I", "U", "F", "B", "N", "D"]:
        add(f"c06_scalarcontainer_{kn(a)}_{kn(b)}", "C06", "quick" if a in "ISN" and b in "IBN" else "thorough", uw(a, b),
            f"crate::c06::scalar_container::<{kt(a)}, {kt(b)}>()", dom(a, b), funcs=["CelValue::in_", "CelValue::index"])

# ---------------------------------------------------------------- C10
add("c10_jump_target", "C10", "quick", 3, "crate::c10::jump_target()",
    {"pc": "1..=len", "dist": "all i32", "len": "0..=isize::MAX"},
    need=["accepted backward target", "accepted forward target", "target exactly at the end", "target before the block", "target past the end"],
    funcs=["Interpreter::checked_jump_target"])

# ---------------------------------------------------------------- C12
for ref in (True, False):
    sfx = "ref" if ref else "owned"
    r = "true" if ref else "false"
    fn = "<CelValue as From<&serde_json::Value>>::from" if ref else "<CelValue as From<serde_json::Value>>::from"
    add(f"c12_json_i64_{sfx}", "C12", "quick", 3, f"crate::c12::json_i64({r})", {"number": "all i64"}, need=["negative"], funcs=[fn])
    add(f"c12_json_u64_{sfx}", "C12", "quick", 3, f"crate::c12::json_u64({r})", {"number": "all u64"}, need=["above int range"], funcs=[fn])
    add(f"c12_json_f64_{sfx}", "C12", "quick", 3, f"crate::c12::json_f64({r})", {"number": "all f64 (non-finite rejected by JSON)"}, need=["finite double"], funcs=[fn])
    add(f"c12_json_misc_{sfx}", "C12", "quick", 3, f"crate::c12::json_misc({r})", {"bool": "both", "null": "-"}, funcs=[fn])
    add(f"c12_json_str_{sfx}", "C12", "quick", 6, f"crate::c12::json_str({r})", {"string": K["S"][2]}, need=["longest"], funcs=[fn])

# ---------------------------------------------------------------- C14
for a in SCALARS:
    if a == "E":
        continue
    q = "quick" if a in "IUFBN" else "thorough"
    add(f"c14_int_{kn(a)}", "C14", q, uwc(a), f"crate::c14::to_int::<{kt(a)}>()", dom(a), funcs=["construct_type", "int_type::dispatch"],
        need=["uint above the int range"] if a == "U" else [])
    if a != "T":
        add(f"c14_uint_{kn(a)}", "C14", q, uwc(a), f"crate::c14::to_uint::<{kt(a)}>()", dom(a), funcs=["construct_type", "uint_type::dispatch"],
            need=["negative int"] if a == "I" else [])
        add(f"c14_double_{kn(a)}", "C14", q, uwc(a), f"crate::c14::to_double::<{kt(a)}>(\"double\")", dom(a), funcs=["construct_type", "double_type::dispatch"])
    add(f"c14_typeof_{kn(a)}", "C14", q, uwc(a), f"crate::c14::type_of::<{kt(a)}>()", dom(a), funcs=["construct_type", "type_type::dispatch", "CelValue::as_type"])
    add(f"c14_dyn_{kn(a)}", "C14", q, uwc(a), f"crate::c14::dyn_identity::<{kt(a)}>()", dom(a), funcs=["construct_type", "dyn_type::dispatch"])
for a in NUM:
    add(f"c14_float_alias_{kn(a)}", "C14", "thorough", 12, f"crate::c14::to_double::<{kt(a)}>(\"float\")", dom(a), funcs=["construct_type"])
    for (ctor, ty) in [("int", "int"), ("uint", "uint"), ("double", "float"), ("bool", "bool")]:
        if (ctor, a) in (("int", "U"), ("uint", "I")):
            continue  # fallible conversion followed by type(): does not finish (15 min)
        add(f"c14_typeofctor_{ctor}_{kn(a)}", "C14", "quick", 12,
            f"crate::c14::type_of_ctor::<{kt(a)}>(\"{ctor}\", \"{ty}\")", dom(a), need=["conversion accepted"], funcs=["construct_type", "type_type::dispatch"])
add("c14_bytes_string_roundtrip", "C14", "quick", 12, "crate::c14::bytes_string_roundtrip()", {"s": K["S"][2]}, need=["longest"],
    funcs=["bytes_type::dispatch", "string_type::dispatch"])
add("c14_string_of_bytes", "C14", "quick", 12, "crate::c14::string_of_bytes()", {"b": K["Y"][2]}, need=["two-byte scalar", "invalid UTF-8"],
    funcs=["string_type::dispatch"])
for a in "IU":
    add(f"c14_timestamp_{kn(a)}", "C14", "quick", 12, f"crate::c14::timestamp_ctor::<{kt(a)}>()", dom(a),
        need=["representable instant"] + (["uint above the int range"] if a == "U" else []), funcs=["timestamp_type::dispatch"], cap=900)

# ---------------------------------------------------------------- C15
MATH_ARGS = ["I", "U", "F", "B", "N", "S", "D"]
for a in MATH_ARGS:
    q = "quick" if a in "IUFN" else "thorough"
    add(f"c15_abs_{kn(a)}", "C15", q, uw(a), f"crate::c15::abs::<{kt(a)}>()", dom(a), need=["most negative int"] if a == "I" else [], funcs=["math::abs::dispatch"])
    add(f"c15_sqrt_{kn(a)}", "C15", q, uw(a), f"crate::c15::sqrt::<{kt(a)}>()", dom(a), funcs=["math::sqrt::dispatch"])
    for (rn, rc) in [("ceil", "Ceil"), ("floor", "Floor"), ("round", "Round")]:
        add(f"c15_{rn}_{kn(a)}", "C15", q, uw(a), f"crate::c15::rounding::<{kt(a)}>(crate::c15::Rnd::{rc})", dom(a),
            need=["non-integral operand"] if a == "F" else [], funcs=[f"math::{rn}::dispatch"])
    add(f"c15_lg_{kn(a)}", "C15", q, uw(a), f"crate::c15::ilog::<{kt(a)}>(false)", dom(a),
        need=["non-positive operand", "positive operand"] if a in "IU" else [], funcs=["math::lg::dispatch"])
    add(f"c15_log_{kn(a)}", "C15", q, max(uw(a), 22), f"crate::c15::ilog::<{kt(a)}>(true)", dom(a),
        need=["non-positive operand", "positive operand"] if a in "IU" else [], funcs=["math::log::dispatch"], cap=900)
# pow, and every call with two or more arguments (arity checks included), goes through
# `let [a0, a1] = args.try_into()` on a heap Vec of two CelValues; CBMC then loses the
# elements' discriminants and unrolls the recursive drop glue of every variant: does not finish
# (15 min cap). Not decided here - see DESIGN.md 3/C15.

# ---------------------------------------------------------------- C16
SHAPES = [("tplusd", "TplusD"), ("dplust", "DplusT"), ("tminusd", "TminusD"), ("tminust", "TminusT"), ("dplusd", "DplusD"), ("dminusd", "DminusD")]
for (sn, sc) in SHAPES:
    add(f"c16_arith_{sn}", "C16", "quick", 3, f"crate::c16::arith(crate::c16::Shape::{sc}, false)",
        {"timestamps": K["T"][2], "durations": K["D"][2]}, need=["representable result"], cap=900,
        funcs=["<CelValue as Add>::add", "<CelValue as Sub>::sub"])
    if sn[0] == "t" or sn == "dplust":
        add(f"c16_arith_{sn}_nanos", "C16", "thorough", 3, f"crate::c16::arith(crate::c16::Shape::{sc}, true)",
            {"timestamps": "all representable instants with nanoseconds", "durations": K["D"][2]}, need=["representable result"], cap=1500,
            funcs=["<CelValue as Add>::add", "<CelValue as Sub>::sub"])
add("c16_dur_roundtrip", "C16", "quick", 3, "crate::c16::dur_roundtrip()", {"d1,d2": K["D"][2]}, need=["round trip"], funcs=["<CelValue as Add>::add", "<CelValue as Sub>::sub"])
add("c16_ts_roundtrip", "C16", "thorough", 3, "crate::c16::ts_roundtrip(false)", {"t": K["T"][2], "d": K["D"][2]}, need=["round trip"], cap=1500, funcs=["<CelValue as Add>::add", "<CelValue as Sub>::sub"])
add("c16_ts_diff_roundtrip", "C16", "thorough", 3, "crate::c16::ts_diff_roundtrip(false)", {"t1,t2": K["T"][2]}, need=["round trip"], cap=1500, funcs=["<CelValue as Add>::add", "<CelValue as Sub>::sub"])
add("c16_dur_accessors", "C16", "quick", 3, "crate::c16::dur_accessors()", {"d": K["D"][2]},
    need=["negative duration with a fraction", "positive duration"], cap=900,
    funcs=["time_funcs::get_hours::dispatch", "time_funcs::get_minutes::dispatch", "time_funcs::get_seconds::dispatch", "time_funcs::get_milliseconds::dispatch"])
add("c16_dur_order", "C16", "quick", 3, "crate::c16::dur_order()", {"d1,d2": K["D"][2]}, need=["earlier"], funcs=["CelValue::lt", "CelValue::ord"])
add("c16_ts_order", "C16", "quick", 3, "crate::c16::ts_order(false)", {"t1,t2": K["T"][2]}, need=["earlier"], cap=900, funcs=["CelValue::lt", "CelValue::ord"])

# ---------------------------------------------------------------- C01
for a in SCALARS:
    for b in SCALARS:
        quick = a in "IUFB" and b in "IUFB"
        add(f"c01_binops_{kn(a)}_{kn(b)}", "C01", "quick" if quick else "thorough", uw(a, b),
            f"crate::c01::binops::<{kt(a)}, {kt(b)}>()", dom(a, b), need=["all binary operators returned"], cap=900,
            funcs=["<CelValue as Add/Sub/Mul/Div/Rem>", "CelValue::lt/le/gt/ge/neq/or/and/in_/index", "<CelValue as CelValueDyn>::eq"])
    add(f"c01_unops_{kn(a)}", "C01", "quick" if a in "IUFBNE" else "thorough", uw(a),
        f"crate::c01::unops::<{kt(a)}>()", dom(a), need=["all unary operators returned"],
        funcs=["<CelValue as Neg>::neg", "<CelValue as Not>::not", "is_truthy", "as_type"])
for a in ["I", "U", "F", "B", "N", "S", "D", "T", "E"]:
    for (mn, mc) in [("abs", "Abs"), ("sqrt", "Sqrt"), ("log", "Log"), ("lg", "Lg"), ("ceil", "Ceil"), ("floor", "Floor"), ("round", "Round")]:
        add(f"c01_{mn}_{kn(a)}", "C01", "quick" if a in "IUF" else "thorough", uw(a),
            f"crate::c01::math1::<{kt(a)}>(crate::c01::Math::{mc})", dom(a), need=["built-in returned"], funcs=[f"math::{mn}::dispatch"])
    for ctor in ["int", "uint", "double", "bool", "string", "bytes", "duration", "timestamp", "type", "dyn"]:
        if ctor == "string" and a in "IUFDT":
            continue  # number/time formatting is outside reach (DESIGN 3, C14)
        if ctor in ("duration", "timestamp") and a == "S":
            continue  # duration/timestamp parsing of text is outside reach
        add(f"c01_ctor_{ctor}_{kn(a)}", "C01", "quick" if a in "IUF" and ctor in ("int", "uint", "double", "bool", "duration", "timestamp") else "thorough", uwc(a),
            f"crate::c01::construct::<{kt(a)}>(\"{ctor}\")", dom(a), need=["constructor returned"], cap=900, funcs=["construct_type", f"{ctor}_type::dispatch"])
add("c01_jump_total", "C01", "quick", 3, "crate::c01::jump_total()", {"pc": "all usize", "dist": "all i32", "len": "all usize"},
    need=["jump accepted", "jump rejected"], funcs=["Interpreter::checked_jump_target"])
for a in ["S", "Y", "I", "N"]:
    add(f"c01_size_{kn(a)}", "C01", "quick" if a in "IN" else "thorough", uw(a), f"crate::c01::size_total::<{kt(a)}>()", dom(a), need=["size returned"], funcs=["size::dispatch"])
for a in ["D", "I", "N"]:
    add(f"c01_duracc_{kn(a)}", "C01", "quick", 3, f"crate::c01::dur_accessors_total::<{kt(a)}>()", dom(a), need=["accessors returned"], funcs=["time_funcs::get_*::dispatch"])


BY_NAME = {h["name"]: h for h in H}
assert len(BY_NAME) == len(H), "duplicate harness names"


def emit_rust():
    out = [
        "// @generated by /verif/harnesses.py - do not edit; `./check` regenerates it on every run.",
        "#![allow(non_snake_case)]",
        "use crate::kinds::*;",
        "use crate::spec::Op;",
        "",
    ]
    for h in H:
        out.append(f"harness!({h['name']}, {h['unwind']}, {{ {h['body']} }});")
    out.append("")
    out.append("pub const ALL: &[(&str, fn())] = &[")
    for h in H:
        out.append(f"    (\"{h['name']}\", {h['name']}),")
    out.append("];")
    return "\n".join(out) + "\n"


def select(prop, tier):
    return [h for h in H if h["prop"] == prop and (tier == "thorough" or h["tier"] == "quick")]


if __name__ == "__main__":
    import collections, sys
    c = collections.Counter((h["prop"], h["tier"]) for h in H)
    for k in sorted(c):
        print(k, c[k])
    print("total", len(H))
