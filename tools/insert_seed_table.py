#!/usr/bin/env python3
import subprocess, re
t = subprocess.run(["python3", "/verif/tools/mk_seed_table.py"], capture_output=True, text=True).stdout
p = "/verif/DESIGN.md"; s = open(p).read()
s = re.sub(r"<!-- SEED-TABLE-BEGIN -->.*<!-- SEED-TABLE-END -->", "<!-- SEED-TABLE-BEGIN -->\n" + t.replace("\\", "\\\\") + "<!-- SEED-TABLE-END -->", s, flags=re.S)
open(p, "w").write(s)
