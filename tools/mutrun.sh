#!/bin/bash
# mutrun.sh <seed-name> <targets-comma> : mirsym only, on a scratch worktree with the seed applied (development helper)
S=$1; T=$2; WT=/tmp/mutrun_$S
rm -rf $WT; git -C /repo worktree prune; git -C /repo worktree add --detach -f $WT HEAD >/dev/null 2>&1 || exit 9
git -C $WT apply /verif/seeded/$S/patch.diff || { echo APPLY-FAILED; git -C /repo worktree remove --force $WT; exit 9; }
mkdir -p /tmp/mir
SQL=""; case "$T" in *sql_*) SQL=/tmp/mir/$S-sql.mir;; esac
python3 /verif/mirsym/mirdump.py $WT /tmp/mir/$S.mir /tmp/mir/target $SQL >/dev/null || exit 9
python3-vt /verif/mirsym/runner.py --mir /tmp/mir/$S.mir ${SQL:+--mir-sql $SQL} --repo $WT --only $T --json /tmp/mir/$S.json "${@:3}"
git -C /repo worktree remove --force $WT
