#!/bin/bash
# confirm_seed.sh <prop> <k> : re-verify a seeded change in the scratch worktree /tmp/seedwt_<prop>
# (patch applies, demo fails with it, full suite passes with it, demo passes without it)
P=$1; K=$2; WT=/tmp/seedwt_$P; D=/tmp/seedout/$P/$K
cd $WT || exit 9
git checkout -q -- . ; git clean -fdq -e target
OUT=$D/confirm.txt; : > $OUT
git apply $D/patch.diff || { echo "APPLY-FAILED" >> $OUT; exit 1; }
mkdir -p rscel/tests; cp $D/demo.rs rscel/tests/seed_demo.rs
if cargo test -p rscel --offline --test seed_demo > $D/demo_with.log 2>&1; then echo "demo_with_patch=PASS(unexpected)" >> $OUT; else echo "demo_with_patch=FAIL(expected)" >> $OUT; fi
rm -f rscel/tests/seed_demo.rs; rmdir rscel/tests 2>/dev/null
if cargo nextest run --workspace --no-fail-fast --test-threads 4 --offline > $D/suite_with.log 2>&1; then echo "suite_with_patch=PASS $(grep -E 'tests run' $D/suite_with.log | tail -1)" >> $OUT; else echo "suite_with_patch=FAIL" >> $OUT; fi
git checkout -q -- . ; git clean -fdq -e target
mkdir -p rscel/tests; cp $D/demo.rs rscel/tests/seed_demo.rs
if cargo test -p rscel --offline --test seed_demo > $D/demo_without.log 2>&1; then echo "demo_without_patch=PASS(expected)" >> $OUT; else echo "demo_without_patch=FAIL(unexpected)" >> $OUT; fi
rm -f rscel/tests/seed_demo.rs; rmdir rscel/tests 2>/dev/null
git checkout -q -- . ; git clean -fdq -e target
cat $OUT
