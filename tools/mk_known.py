#!/usr/bin/env python3
"""Regenerates the `fixed:` lines of known_findings.json from /repo's fix: commits (the
open findings list is kept as it is)."""
import json, subprocess
log = subprocess.run(["git","-C","/repo","log","--format=%h %s"],capture_output=True,text=True).stdout.splitlines()
sha = {}
for l in log:
    h, s = l.split(" ",1)
    if s.startswith("fix:"): sha[s] = h
def find(sub):
    for s,h in sha.items():
        if sub in s: return h
    raise KeyError(sub)
fixed = [
 ("C03", find("integer + - *"), "Int/UInt add, sub, mul, neg panicked (dev) or wrapped (release) on overflow; i64::MIN / -1 and x % 0 panicked; e.g. 9223372036854775807 + 1, 0u - 1u, 1 % 0 (harnesses c03_add_int_int, c03_sub_uint_uint, c03_mul_int_int, c03_neg_int, c03_divpred_int_int, c03_rempred_int_int)"),
 ("C01", find("integer + - *"), "same call sites: arithmetic operators aborted instead of returning an error value (harness c01_binops_int_int and the other numeric pairs)"),
 ("C03", find("int with uint"), "type_prop widened a uint with `as i64`: 1 + 18446744073709551615u == 0 (harness c03_add_int_uint and the other mixed pairs)"),
 ("C04", find("int with uint"), "18446744073709551615u compared as -1: 18446744073709551615u == -1 was true and -1 < 18446744073709551615u false (harnesses c04_pair_int_uint, c04_pair_uint_int, c04_triple_*)"),
 ("C14", find("int(), uint()"), "int(9223372036854775808u) returned -9223372036854775808, uint(-1) returned 18446744073709551615, duration(0, 4294967301) accepted as 5ns, timestamp(18446744073709551615u) returned 1969-12-31T23:59:59Z (harnesses c14_int_uint, c14_uint_int, c14_duration_secs_nanos, c14_timestamp_uint)"),
 ("C15", find("abs, lg, log"), "abs(-9223372036854775808) panicked/wrapped; lg(0), lg(-1), log(0) panicked; pow(2, 64) panicked/wrapped; pow(2, -1), pow(2, 4294967296) and pow(2, 0.5) used a truncated exponent (harnesses c15_abs_int, c15_lg_*, c15_log_*, c15_powpred_*, c15_powval_*, c15_powfloatexp_*)"),
 ("C01", find("abs, lg, log"), "same call sites: math built-ins aborted instead of returning an error value (harnesses c01_abs_int, c01_lg_*, c01_log_*)"),
 ("C15", find("splitAt"), "'abc'.splitAt(4), 'abc'.splitAt(-1) and 'aé'.splitAt(2) panicked inside str::split_at. Found by the first-round harness c15_splitat_* (Kani counterexample at offset -1, before the fix); that harness does not finish on the repaired code (the function returns a two-element list) and is no longer registered - demonstrated by plain test instead, see DESIGN.md section 4"),
 ("C16", find("timestamp/duration"), "timestamp/duration + and - panicked (chrono `expect`) when the result left the representable range, e.g. timestamp(8210266876799) + duration(1), duration MAX + duration MAX (harnesses c16_range_*, c16_arith_dplusd, c16_arith_dminusd)"),
 ("C01", find("timestamp/duration"), "same call sites (harnesses c01_binops_timestamp_duration, c01_binops_duration_duration, ...)"),
 ("C06", find("lets the last entry of a repeated key win"), "a map literal with a repeated key built at run time kept the FIRST entry (`{'a': x, 'a': y}` with x = 1, y = 2 gave {'a': 1}) while the same literal folded at compile time keeps the last (`{'a': 1, 'a': 2}` gives {'a': 2}): MkDict inserted the entries in pop order, i.e. last-to-first (mirsym target vm_mkdict, obligation 'run yields the reference's value'; confirmed natively on [Push 11, Push 's', Push 13, Push 's', MkDict 2]; first pointed out by a seeding sub-agent)"),
 ("C13", find("hexadecimal literals accept"), "hexadecimal literals stopped at the first letter digit: `0xff`, `0XAB` were a syntax error (`Failed to parse unsigned int 0x`), `0x0D` lexed as `0x0` followed by an identifier, `0x1e` was taken for a double with an exponent (mirsym targets tok_number_short and tok_number_hex, obligations 'a well-formed int literal becomes an IntLit token' / 'IntLit carries the value the digits spell'; confirmed natively on the literals 0xF and 0X0D)"),
 ("C13", find("integer literal above the int64 range"), "an integer literal above i64::MAX wrapped instead of being rejected: `9223372036854775808` evaluated to -9223372036854775808 and `18446744073709551615` to -1 (`IntLit(u64) as i64` in parse_primary). Found by mirsym target parse_intlit once the parser became executable (obligation 'an integer literal above the int64 range is rejected'), confirmed natively. The repair makes such a literal a syntax error; `-9223372036854775808` is therefore still not spellable as a literal (it was an overflow error before as well) - see DESIGN.md section 4"),
 ("C05", find("chooses by the truthiness of c"), "the run-time form of `c ? x : y` jumped on the raw value of c: with c = 2 the result was the error `JMP TRUE invalid on type int` instead of x, with a failing c (unbound variable, 1/0) the false branch was evaluated and its value returned instead of the failure, while the constant-folded form used the truthiness of c and propagated its failure (mirsym target parse_ternary, obligation 'a falsy condition evaluates exactly y; a truthy condition evaluates exactly x; c ? x : y fails when c fails'; confirmed natively on `c ? x : y` with c = 2, x = 3, y = 4)"),
 ("C02", find("lists call arguments in source order"), "the exposed syntax tree held the arguments of every call in reverse source order (`f(x, y)` had exprs [y, x]): the parser collected the argument nodes while walking the arguments backwards for code generation; the SQL translator compensated for a call standing alone but not inside a member chain, where `a.f(x, y)` came out as `f(y, x)` (mirsym targets gram_call, gram_method, gram_call_chain, obligation 'call arguments appear in the tree in source order'; seen natively in the serialized tree of `f ( a , b + c )`)"),
 ("C17", find("call arguments, receivers, macro bodies and f-string"), "identifiers read inside call arguments, call receivers, macro ranges and bodies and f-string expressions were missing from the parameter list: `f(x)`, `a.f(b)`, `xs.map(v, v + z)` and f'{x}' reported no parameters at all (arguments were lowered with into_unresolved_bytecode, check_for_const rebuilt the node with empty details, the f-string branch dropped the details of its embedded expressions), so binding every reported name did not avoid unbound-variable failures (mirsym targets gram_call, gram_method, gram_call_chain, obligation 'every identifier in variable position is a reported parameter'; first pointed out by a seeding sub-agent; confirmed natively: params of `f ( a , b + c )` were [])"),
 ("C09", find("now() and zero-argument timestamp()"), "`now()` and `timestamp()` were folded at compile time: the compiler runs every call on BindContext::for_compile(), whose function table held the run-time `now` and whose `timestamp` constructor reads the clock when called without arguments, so the compiled (and serialized) program carried the constant `PUSH TimeStamp(<time of compilation>)` and every execution returned that instant (mirsym target c09_clock, obligation 'a callable of the compile-time tables never reads the clock': now() with 0 arguments and timestamp() with 0 arguments call Utc::now; confirmed natively on the bytecode of `now()`)"),
 ("C19", find("never serialized come last"), "a compiled program containing an error constant (e.g. `1 / 0`, `[1, 1 / 0]`) could not be read back from bincode: Serialize wrote CelValue::Err with variant index 15 (17 with protobuf) while Deserialize numbers the non-skipped variants consecutively and expects 14 - `invalid value: integer 15, expected variant index 0 <= i < 15` (mirsym target c19_tags_celvalue, obligation 'index tag of CelValue::Err selects the same variant when read back'; confirmed natively by a bincode round trip)"),
]
p="/verif/known_findings.json"
try:
    doc=json.load(open(p))
except Exception:
    doc={"findings":[]}
doc["_comment"]="Known findings of /verif/check. `findings` (status open) are genuine defects that are recorded rather than repaired: a check prints KNOWN-FINDING for exactly these (property, harness, failing-check roles) and still reports any other violation. `fixed` entries suppress nothing."
doc["fixed"]=[f"fixed: property={p_} {h} {w}" for p_,h,w in fixed]
json.dump(doc, open(p,"w"), indent=1, ensure_ascii=False)
print(len(fixed), "fixed entries")
