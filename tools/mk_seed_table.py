#!/usr/bin/env python3
"""Prints the markdown table of DESIGN.md section 8 from seeded/*/meta.json."""
import json, glob, os, re
rows = []
for d in sorted(glob.glob("/verif/seeded/*")):
    m = json.load(open(os.path.join(d, "meta.json")))
    sid = os.path.basename(d)
    summ = m.get("summary", "")
    notes = os.path.join(d, "notes.md")
    site = summ.strip().split("\n")[0][:170].replace("|", "/")
    if os.path.exists(notes):
        txt = open(notes).read()
        hm = re.search(r"^#+\s*(.+)$", txt, re.M)
        if hm:
            site = hm.group(1).strip()[:170].replace("|", "/")
    det = m.get("detected_by")
    if not det:
        res = "not run"
    elif det.get("detected"):
        v = "; ".join(x for x in det.get("violations", []) if x.startswith("harness=") or x.startswith("target="))[:200].replace("|", "/")
        res = f"**detected** by `{det['check']}` ({v})"
    else:
        res = f"missed (`{det['check']}` exit {det['exit']}): {m.get('why_missed', '')}"
    rows.append(f"| {sid} | {site} | {res} |")
print("| seed | change | result of the registered quick check |\n|---|---|---|")
print("\n".join(rows))
