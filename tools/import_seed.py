#!/usr/bin/env python3
"""import_seed.py <PROP> <k> <new-index>: copies /tmp/seedout/<PROP>/<k> into seeded/<PROP>-<new-index>/ with a meta.json"""
import json, os, shutil, sys, subprocess
P, k, idx = sys.argv[1], sys.argv[2], sys.argv[3]
src = f"/tmp/seedout/{P}/{k}"
dst = f"/verif/seeded/{P}-{idx}"
os.makedirs(dst, exist_ok=True)
for f in ("patch.diff", "demo.rs", "notes.md"):
    shutil.copy(os.path.join(src, f), os.path.join(dst, f))
conf = open(os.path.join(src, "confirm.txt")).read().split("\n") if os.path.exists(os.path.join(src, "confirm.txt")) else []
notes = open(os.path.join(src, "notes.md")).read()
head = subprocess.run(["git", "-C", "/repo", "rev-parse", "--short", "HEAD"], capture_output=True, text=True).stdout.strip()
meta = {
    "breaks_property": P,
    "summary": notes[:1500],
    "needs_to_manifest": "see notes.md (section on what is needed for the breakage to manifest)",
    "author": f"independent sub-agent given only the property text and a scratch worktree of /repo (commit {head})",
    "author_ran": "see notes.md",
    "confirmed_by_me": {"how": "tools/confirm_seed.sh in a scratch worktree: git apply patch.diff; demo.rs as rscel/tests/seed_demo.rs must fail; cargo nextest run --workspace must pass (497); without the patch demo.rs must pass", "result": [c for c in conf if c]},
    "detected_by": None,
}
json.dump(meta, open(os.path.join(dst, "meta.json"), "w"), indent=1)
print(dst, meta["confirmed_by_me"]["result"])
