#!/usr/bin/env python3
"""Reads .cache/seed-results.txt (one line per seed run, later lines win) and records in each
seeded/<id>/meta.json what the registered check did with that change."""
import json, os, re
res = {}
for l in open("/verif/.cache/seed-results.txt"):
    m = re.match(r"^(\S+) (\S+) (\S+) exit=(\d+) violations=(\d+) (.*)$", l.strip())
    if m:
        res[m.group(1)] = dict(check=f"./check {m.group(2)} --tier {m.group(3)}", exit=int(m.group(4)), violation_lines=int(m.group(5)), summary=m.group(6)[:400])
for sid, r in sorted(res.items()):
    p = f"/verif/seeded/{sid}/meta.json"
    if not os.path.exists(p):
        continue
    meta = json.load(open(p))
    viol = []
    lg = f"/verif/.cache/seed-{sid}-{r['check'].split()[1]}-quick.log"
    if os.path.exists(lg):
        for l in open(lg, errors="replace"):
            if l.startswith("VIOLATION") or l.startswith("  harness=") or l.startswith("  target="):
                viol.append(l.strip()[:300])
    meta["detected_by"] = {"detected": r["exit"] == 1, "check": r["check"], "exit": r["exit"], "summary": r["summary"], "violations": viol[:8]}
    json.dump(meta, open(p, "w"), indent=1)
    print(sid, "DETECTED" if r["exit"] == 1 else f"missed (exit {r['exit']})")
