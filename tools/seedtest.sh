#!/bin/bash
# seedtest.sh <seed-dir> <prop> <tier> [only-list]
# applies <seed-dir>/patch.diff to /repo, runs the registered check, reverts /repo.
SD=$1; P=$2; T=${3:-quick}; ONLY=$4
cd /repo || exit 9
if ! git diff --quiet; then echo "/repo has uncommitted changes: refusing"; exit 9; fi
git apply $SD/patch.diff || { echo APPLY-FAILED; exit 9; }
cd /verif
if [ -n "$ONLY" ]; then ./check $P --tier $T --only $ONLY --no-evidence; else ./check $P --tier $T --no-evidence; fi
RC=$?
git -C /repo checkout -- .
echo "SEEDTEST seed=$SD prop=$P tier=$T exit=$RC"
exit $RC
