#!/bin/bash
# seedtest.sh <seed-dir> <prop> <tier> [only-list]
# Runs the registered check against a scratch worktree of /repo with <seed-dir>/patch.diff
# applied, from a private copy of /verif (so /repo and /verif/.cache are untouched).
SD=$(readlink -f $1); P=$2; T=${3:-quick}; ONLY=$4
TAG=$(basename $SD)
WT=/tmp/seedrun/$TAG/repo; VC=/tmp/seedrun/$TAG/verif
rm -rf /tmp/seedrun/$TAG; mkdir -p /tmp/seedrun/$TAG
git -C /repo worktree prune
git -C /repo worktree add --detach -f $WT HEAD >/dev/null 2>&1 || { echo WORKTREE-FAILED; exit 9; }
git -C $WT apply $SD/patch.diff || { echo APPLY-FAILED; git -C /repo worktree remove --force $WT; exit 9; }
mkdir -p $VC; rsync -a --exclude .cache --exclude .git --exclude evidence --exclude replays /verif/ $VC/
mkdir -p $VC/evidence $VC/replays
# share the warm dependency build when there is one (copy, not link: the run mutates it)
if [ -d /verif/.cache/kani-$P ] && [ -z "$SEED_COLD" ]; then mkdir -p $VC/.cache; cp -a /verif/.cache/kani-$P $VC/.cache/; fi
cd $VC
if [ -n "$ONLY" ]; then VERIF_REPO=$WT ./check $P --tier $T --only $ONLY --no-evidence; else VERIF_REPO=$WT ./check $P --tier $T --no-evidence; fi
RC=$?
mkdir -p /verif/.cache/seedruns/$TAG; cp -a $VC/replays /verif/.cache/seedruns/$TAG/ 2>/dev/null
mkdir -p /verif/.cache/seedruns/$TAG/logs; cp $VC/.cache/*.log /verif/.cache/seedruns/$TAG/logs/ 2>/dev/null; git -C /repo worktree remove --force $WT; rm -rf /tmp/seedrun/$TAG
echo "SEEDTEST seed=$SD prop=$P tier=$T exit=$RC"
exit $RC
