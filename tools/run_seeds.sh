#!/bin/bash
# run_seeds.sh <listfile>: lines "<seed> <prop> <tier>"; sequential; results appended to .cache/seed-results.txt
while read -r SEED PROP TIER; do
  [ -z "$SEED" ] && continue
  echo "=== $SEED $PROP $TIER $(date +%T)"
  /verif/tools/seedtest.sh /verif/seeded/$SEED $PROP $TIER > /verif/.cache/seed-$SEED-$PROP-$TIER.log 2>&1
  RC=$?
  V=$(grep -c '^VIOLATION' /verif/.cache/seed-$SEED-$PROP-$TIER.log)
  echo "$SEED $PROP $TIER exit=$RC violations=$V $(grep '^\[' /verif/.cache/seed-$SEED-$PROP-$TIER.log | tail -1)" | tee -a /verif/.cache/seed-results.txt
done < "$1"
