#!/bin/sh
# usage: runall.sh <tier> <prop>...   (development helper: runs checks one after another)
tier=$1; shift
for p in "$@"; do
  echo "=== $p ($tier) $(date +%T)"
  ./check $p --tier $tier > .cache/run-$p-$tier.log 2>&1
  echo "exit=$? $(tail -1 .cache/run-$p-$tier.log)"
done
