//! C14 - scalar type conversions through `construct_type`.
use crate::kinds::*;
use crate::sym::any;
use crate::witness;
use rscel::verif_hooks::construct_type;
use rscel::{CelValue, CelValueDyn};

fn b2(b: bool) -> i64 {
    if b {
        1
    } else {
        0
    }
}

/// int(x)
pub fn to_int<K: Kind>() {
    let a = K::sym();
    let r = construct_type("int", vec![a.cel()]);
    let got = classify(&r);
    match a {
        V::I(i) => assert!(matches!(got, R::I(x) if x == i), "int(int) is the identity"),
        V::U(u) => {
            witness!(u > i64::MAX as u64, "uint above the int range");
            witness!(u <= i64::MAX as u64, "uint inside the int range");
            if u <= i64::MAX as u64 {
                assert!(matches!(got, R::I(x) if x as u64 == u && x >= 0), "int(uint) preserves the number");
            } else {
                assert!(matches!(got, R::Err), "int(uint above the int range) must be an error, not a wrapped value");
            }
        }
        V::F(f) => {
            witness!(f > 9.3e18, "double above the int range");
            if !f.is_nan() {
                // truncation toward zero, saturating
                assert!(matches!(got, R::I(x) if x == f as i64), "int(double) truncates toward zero (saturating)");
                if let R::I(x) = got {
                    if f >= -9.2e18 && f <= 9.2e18 {
                        let d = f - (x as f64);
                        assert!(d > -1.0 && d < 1.0, "truncation is within one unit");
                        assert!((f >= 0.0 && d >= 0.0) || (f <= 0.0 && d <= 0.0), "truncation is toward zero");
                    }
                }
            }
        }
        V::B(b) => assert!(matches!(got, R::I(x) if x == b2(b)), "int(bool) is 0/1"),
        V::T(s, _) => {
            witness!(true, "timestamp");
            assert!(matches!(got, R::I(x) if x == s), "int(timestamp) is the epoch second");
        }
        _ => {
            witness!(true, "unsupported source kind");
            assert!(matches!(got, R::Err), "int() of an unsupported kind is an error");
        }
    }
    core::mem::forget(r);
}

/// uint(x)
pub fn to_uint<K: Kind>() {
    let a = K::sym();
    let r = construct_type("uint", vec![a.cel()]);
    let got = classify(&r);
    match a {
        V::U(u) => assert!(matches!(got, R::U(x) if x == u), "uint(uint) is the identity"),
        V::I(i) => {
            witness!(i < 0, "negative int");
            witness!(i >= 0, "non-negative int");
            if i >= 0 {
                assert!(matches!(got, R::U(x) if x == i as u64), "uint(int) preserves the number");
            } else {
                assert!(matches!(got, R::Err), "uint(negative int) must be an error, not a wrapped value");
            }
        }
        V::F(f) => {
            if !f.is_nan() && f >= 0.0 {
                witness!(f > 1.9e19, "double above the uint range");
                assert!(matches!(got, R::U(x) if x == f as u64), "uint(double) truncates toward zero (saturating)");
            }
            // negative doubles: "saturating" and "negative to uint is an error" pull in
            // different directions; NaN has no integer value: totality only
        }
        V::B(b) => assert!(matches!(got, R::U(x) if x == b2(b) as u64), "uint(bool) is 0/1"),
        _ => {
            witness!(true, "unsupported source kind");
            assert!(matches!(got, R::Err), "uint() of an unsupported kind is an error");
        }
    }
    core::mem::forget(r);
}

/// double(x)
pub fn to_double<K: Kind>(name: &'static str) {
    let a = K::sym();
    let r = construct_type(name, vec![a.cel()]);
    let got = classify(&r);
    match a {
        V::F(f) => assert!(matches!(got, R::F(x) if same_f64(x, f)), "double(double) is the identity"),
        V::I(i) => {
            witness!(i > (1 << 53), "int beyond exact double range");
            assert!(matches!(got, R::F(x) if same_f64(x, i as f64)), "double(int) is the nearest double");
        }
        V::U(u) => assert!(matches!(got, R::F(x) if same_f64(x, u as f64)), "double(uint) is the nearest double"),
        V::B(b) => assert!(matches!(got, R::F(x) if x == b2(b) as f64), "double(bool) is 0/1"),
        _ => {
            witness!(true, "unsupported source kind");
            assert!(matches!(got, R::Err), "double() of an unsupported kind is an error");
        }
    }
    core::mem::forget(r);
}

/// type(T(x)) == T for the numeric/bool constructors
pub fn type_of_ctor<K: Kind>(name: &'static str, tyname: &'static str) {
    let a = K::sym();
    let v = construct_type(name, vec![a.cel()]);
    // rebuild the converted value with a concrete kind per arm (a value whose discriminant
    // is symbolic - "int or error" - would drag every variant's drop glue into the query)
    let t = match classify(&v) {
        R::Err => {
            witness!(true, "conversion rejected");
            core::mem::forget(v);
            return;
        }
        R::I(i) => construct_type("type", vec![CelValue::Int(i)]),
        R::U(u) => construct_type("type", vec![CelValue::UInt(u)]),
        R::F(f) => construct_type("type", vec![CelValue::Float(f)]),
        R::B(b) => construct_type("type", vec![CelValue::Bool(b)]),
        _ => {
            assert!(false, "numeric/bool constructor must yield a number, a bool or an error");
            return;
        }
    };
    core::mem::forget(v);
    witness!(true, "conversion accepted");
    match &t {
        CelValue::Type(n) => assert!(n.as_str() == tyname, "type(T(x)) must be T"),
        _ => assert!(false, "type() must return a type"),
    }
    core::mem::forget(t);
}

/// dyn(x) == x (scalars)
pub fn dyn_identity<K: Kind>() {
    let a = K::sym();
    let r = construct_type("dyn", vec![a.cel()]);
    let got = classify(&r);
    witness!(true, "reached");
    match a {
        V::I(i) => assert!(matches!(got, R::I(x) if x == i), "dyn(x) == x"),
        V::U(u) => assert!(matches!(got, R::U(x) if x == u), "dyn(x) == x"),
        V::F(f) => assert!(matches!(got, R::F(x) if same_f64(x, f)), "dyn(x) == x"),
        V::B(b) => assert!(matches!(got, R::B(x) if x == b), "dyn(x) == x"),
        V::N => assert!(matches!(got, R::N), "dyn(null) == null"),
        _ => {}
    }
    core::mem::forget(r);
}

/// type(x) names the kind of x
pub fn type_of<K: Kind>() {
    let a = K::sym();
    let t = construct_type("type", vec![a.cel()]);
    let want = match a {
        V::I(_) => "int",
        V::U(_) => "uint",
        V::F(_) => "float",
        V::B(_) => "bool",
        V::N => "null",
        V::S(_) => "string",
        V::Y(_) => "bytes",
        V::D(..) => "duration",
        V::T(..) => "timestamp",
        V::Ty => "type",
        V::E => "err",
    };
    witness!(true, "reached");
    match &t {
        CelValue::Type(n) => assert!(n.as_str() == want, "type(x) must name x's type"),
        _ => assert!(false, "type() must return a type"),
    }
    let direct = a.cel().as_type();
    assert!(matches!(&direct, CelValue::Type(n) if n.as_str() == want), "as_type agrees");
    core::mem::forget((t, direct));
}

/// string(bytes(s)) == s on short strings; bytes -> string rejects non-UTF-8
pub fn bytes_string_roundtrip() {
    let a = KS::sym();
    let s = match a {
        V::S(s) => s,
        _ => unreachable!(),
    };
    let y = construct_type("bytes", vec![a.cel()]);
    match &y {
        CelValue::Bytes(b) => {
            assert!(b.len() == s.len as usize, "bytes(s) has s's UTF-8 length");
        }
        _ => assert!(false, "bytes(string) must be bytes"),
    }
    let back = construct_type("string", vec![y]);
    witness!(s.len == MAX_STR, "longest");
    match &back {
        CelValue::String(g) => {
            let g = g.as_bytes();
            assert!(g.len() == s.len as usize, "string(bytes(s)) has the same length");
            let mut i = 0usize;
            while i < MAX_STR as usize {
                if i < g.len() {
                    assert!(g[i] == s.b[i], "string(bytes(s)) == s");
                }
                i += 1;
            }
        }
        _ => assert!(false, "string(bytes(s)) must be a string"),
    }
    core::mem::forget(back);
}

pub fn string_of_bytes() {
    let a = KY::sym();
    let s = match a {
        V::Y(s) => s,
        _ => unreachable!(),
    };
    let r = construct_type("string", vec![a.cel()]);
    // oracle: UTF-8 validity of <= 2 bytes, written from the encoding table
    let valid = match s.len {
        0 => true,
        1 => s.b[0] < 0x80,
        _ => (s.b[0] < 0x80 && s.b[1] < 0x80) || (s.b[0] >= 0xC2 && s.b[0] <= 0xDF && s.b[1] >= 0x80 && s.b[1] <= 0xBF),
    };
    witness!(valid && s.len == 2 && s.b[0] >= 0xC2, "two-byte scalar");
    witness!(!valid, "invalid UTF-8");
    if valid {
        match &r {
            CelValue::String(g) => {
                let g = g.as_bytes();
                assert!(g.len() == s.len as usize, "string(bytes) keeps the bytes");
                let mut i = 0usize;
                while i < MAX_STR as usize {
                    if i < g.len() {
                        assert!(g[i] == s.b[i], "string(bytes) keeps the bytes");
                    }
                    i += 1;
                }
            }
            _ => assert!(false, "string(valid UTF-8 bytes) must be a string"),
        }
    } else {
        assert!(r.is_err(), "string(non-UTF-8 bytes) must be an error");
    }
    core::mem::forget(r);
}

/// too many arguments (2, 3) is an error
pub fn arity(name: &'static str) {
    let x: i64 = any();
    let r2 = construct_type(name, vec![CelValue::Int(x), CelValue::Int(x)]);
    let r3 = construct_type(name, vec![CelValue::Int(x), CelValue::Int(x), CelValue::Int(x)]);
    witness!(true, "reached");
    assert!(r2.is_err(), "constructor with two arguments must be an error");
    assert!(r3.is_err(), "constructor with three arguments must be an error");
    core::mem::forget((r2, r3));
}



/// timestamp(int) / timestamp(uint): the instant that many seconds after the epoch, or an
/// error when it is not representable - never a different instant
pub fn timestamp_ctor<K: Kind>() {
    let a = K::sym();
    let r = construct_type("timestamp", vec![a.cel()]);
    let secs: Option<i64> = match a {
        V::I(i) => Some(i),
        V::U(u) => {
            witness!(u > i64::MAX as u64, "uint above the int range");
            if u <= i64::MAX as u64 {
                Some(u as i64)
            } else {
                None
            }
        }
        _ => None,
    };
    // range predicate only: seconds -> civil date -> seconds inside one query does not finish
    match (&r, secs) {
        (CelValue::TimeStamp(_), Some(s)) => {
            witness!(true, "representable instant");
            // chrono's representable years are -262143..=262142: generous numeric bracket
            assert!(s > -8_334_700_000_000 && s < 8_210_300_000_000, "timestamp() accepted seconds outside chrono's range");
        }
        (CelValue::Err(_), Some(s)) => {
            assert!(s < -8_334_500_000_000 || s > 8_210_200_000_000, "timestamp() rejected seconds well inside the representable range");
        }
        (CelValue::Err(_), None) => {}
        _ => assert!(false, "timestamp(uint above the int range) must be an error"),
    }
    core::mem::forget(r);
}

/// duration(s, n) through the typed overload (the two-argument dispatcher is out of reach):
/// n outside 0..1e9 or an unrepresentable length is an error, never a different duration
pub fn duration_inner2() {
    use rscel::verif_hooks::verif_duration_inner as d;
    let s: i64 = any();
    let n: i64 = any();
    let r = d::secs_nanos(s, n);
    let want = if n >= 0 && n < 1_000_000_000 { chrono::Duration::new(s, n as u32) } else { None };
    witness!(n > u32::MAX as i64, "nanos above u32");
    witness!(want.is_some(), "valid pair");
    match (r, want) {
        (Ok(g), Some(w)) => assert!(g == w, "duration(s, n) is s seconds and n nanoseconds"),
        (Err(e), None) => core::mem::forget(e),
        (Err(e), Some(_)) => {
            core::mem::forget(e);
            assert!(false, "duration(s, n) rejected a representable pair");
        }
        (Ok(_), None) => assert!(false, "duration(s, n) with n outside 0..1e9 or out of range must be an error"),
    }
}

pub fn duration_inner1() {
    use rscel::verif_hooks::verif_duration_inner as d;
    let s: i64 = any();
    let r = d::secs(s);
    let want = chrono::Duration::new(s, 0);
    witness!(want.is_none(), "out of range seconds");
    match (r, want) {
        (Ok(g), Some(w)) => assert!(g == w, "duration(i) is i seconds"),
        (Err(e), None) => core::mem::forget(e),
        (Err(e), Some(_)) => {
            core::mem::forget(e);
            assert!(false, "duration(i) rejected a representable length");
        }
        (Ok(_), None) => assert!(false, "duration(i) must be an error when not representable"),
    }
}
