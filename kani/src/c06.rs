//! C06 - the string/bytes clauses: concatenation preserves order, size is the byte count,
//! `in` / indexing on scalar right operands fail.
use crate::kinds::*;
use crate::spec::short_concat;
use crate::sym::{any, assume};
use crate::witness;
use rscel::verif_hooks::verif_funcs as vf;
use rscel::CelValue;

/// S+S / Y+Y: byte-wise concatenation in order.
pub fn concat<K: Kind>() {
    let a = K::sym();
    let b = K::sym();
    let r = a.cel() + b.cel();
    let (sa, sb) = match (a, b) {
        (V::S(x), V::S(y)) | (V::Y(x), V::Y(y)) => (x, y),
        _ => unreachable!(),
    };
    let (want, n) = short_concat(sa, sb);
    let got: &[u8] = match (&r, a) {
        (CelValue::String(s), V::S(_)) => s.as_bytes(),
        (CelValue::Bytes(y), V::Y(_)) => y.as_slice(),
        _ => {
            assert!(false, "concatenation must return a value of the operands' type");
            &[]
        }
    };
    witness!(n == 4, "longest concatenation");
    witness!(n == 0, "empty concatenation");
    assert!(got.len() == n, "concatenation length is the sum of the lengths");
    let mut i = 0usize;
    while i < 4 {
        if i < n {
            assert!(got[i] == want[i], "concatenation preserves every byte in order");
        }
        i += 1;
    }
    core::mem::forget(r);
}

/// size(x) as method and as function = byte count
pub fn size_of<K: Kind>() {
    let a = K::sym();
    let n = match a {
        V::S(s) | V::Y(s) => s.len as u64,
        _ => unreachable!(),
    };
    let m = vf::size(a.cel(), vec![CelValue::Null]);
    let f = vf::size(CelValue::Null, vec![a.cel()]);
    witness!(n == MAX_STR as u64, "longest operand");
    assert!(matches!(m, CelValue::UInt(x) if x == n), "x.size() is the byte count");
    assert!(matches!(f, CelValue::UInt(x) if x == n), "size(x) is the byte count");
    core::mem::forget((m, f));
}

/// size of a string holding one two-byte UTF-8 scalar (plus up to one ASCII byte) is its
/// UTF-8 length
pub fn size_utf8() {
    let b0: u8 = any();
    let b1: u8 = any();
    let b2: u8 = any();
    let extra: bool = any();
    assume(b0 >= 0xC2 && b0 <= 0xDF && b1 >= 0x80 && b1 <= 0xBF && b2 < 0x80);
    let bytes = if extra { vec![b0, b1, b2] } else { vec![b0, b1] };
    let n = if extra { 3u64 } else { 2u64 };
    let s = unsafe { String::from_utf8_unchecked(bytes) };
    let m = vf::size(CelValue::String(s), vec![CelValue::Null]);
    witness!(extra, "three bytes");
    assert!(matches!(m, CelValue::UInt(x) if x == n), "size of a string is its UTF-8 length");
    core::mem::forget(m);
}

/// `a in b` and `b[a]` with a scalar container operand fail
pub fn scalar_container<K1: Kind, K2: Kind>() {
    let a = K1::sym();
    let b = K2::sym();
    let r = a.cel().in_(b.cel());
    witness!(true, "reached");
    assert!(r.is_err(), "`in` is an error for a right operand that is not a list, map or string");
    let i = b.cel().index(a.cel());
    assert!(i.is_err(), "indexing a scalar is an error");
    core::mem::forget((r, i));
}

// ---------------------------------------------------------------------------------------
// Lists of at most ONE element. A heap Vec of two or more CelValues cannot be read back by
// the model checker (DESIGN.md B1), and an element access under a *symbolic* index clones a
// value of unknown kind; so the index is concrete per query (a stated enumeration) while the
// element is fully symbolic.

/// `[x][i]` for a concrete int index i
pub fn list1_index_int(i: i64) {
    let x: i64 = any();
    let r = CelValue::List(vec![CelValue::Int(x)]).index(CelValue::Int(i));
    witness!(true, "reached");
    if i == 0 || i == -1 {
        assert!(matches!(r, CelValue::Int(y) if y == x), "l[i] is the element for 0 <= i < size and -size <= i < 0");
    } else {
        assert!(r.is_err(), "l[i] outside -size..size is an error");
    }
    core::mem::forget(r);
}

/// `[x][i]` for a concrete uint index i
pub fn list1_index_uint(i: u64) {
    let x: i64 = any();
    let r = CelValue::List(vec![CelValue::Int(x)]).index(CelValue::UInt(i));
    witness!(true, "reached");
    if i == 0 {
        assert!(matches!(r, CelValue::Int(y) if y == x), "l[0u] is the element");
    } else {
        assert!(r.is_err(), "l[i] with i >= size is an error");
    }
    core::mem::forget(r);
}

/// `[][i]` is an error for every int and uint index
pub fn list0_index() {
    let i: i64 = any();
    let u: u64 = any();
    let r = CelValue::List(vec![]).index(CelValue::Int(i));
    let s = CelValue::List(vec![]).index(CelValue::UInt(u));
    witness!(i < 0, "negative index");
    assert!(r.is_err() && s.is_err(), "indexing the empty list is an error");
    core::mem::forget((r, s));
}

/// a non-integer index into a list is an error
pub fn list1_index_kind<K: Kind>() {
    let x: i64 = any();
    let k = K::sym();
    let r = CelValue::List(vec![CelValue::Int(x)]).index(k.cel());
    witness!(true, "reached");
    assert!(r.is_err(), "a list index that is not an int or uint is an error");
    core::mem::forget(r);
}

/// `y in [x]` is `x == y`; `y in []` is false
pub fn list_in() {
    let x: i64 = any();
    let y: i64 = any();
    let r = CelValue::Int(y).in_(CelValue::List(vec![CelValue::Int(x)]));
    let e = CelValue::Int(y).in_(CelValue::List(vec![]));
    witness!(x == y, "member");
    witness!(x != y, "not a member");
    assert!(matches!(r, CelValue::Bool(b) if b == (x == y)), "`in` on a list is membership");
    assert!(matches!(e, CelValue::Bool(false)), "nothing is in the empty list");
    core::mem::forget((r, e));
}

/// size of lists with zero and one element
pub fn list_size() {
    let x: i64 = any();
    let s1 = vf::size(CelValue::List(vec![CelValue::Int(x)]), vec![CelValue::Null]);
    let s0 = vf::size(CelValue::Null, vec![CelValue::List(vec![])]);
    witness!(true, "reached");
    assert!(matches!(s1, CelValue::UInt(1)), "size of a one-element list is 1");
    assert!(matches!(s0, CelValue::UInt(0)), "size of the empty list is 0");
    core::mem::forget((s1, s0));
}
