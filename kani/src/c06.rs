//! C06 - the string/bytes clauses: concatenation preserves order, size is the byte count,
//! `in` / indexing on scalar right operands fail.
use crate::kinds::*;
use crate::spec::short_concat;
use crate::sym::{any, assume};
use crate::witness;
use rscel::verif_hooks::verif_funcs as vf;
use rscel::CelValue;

/// S+S / Y+Y: byte-wise concatenation in order.
pub fn concat<K: Kind>() {
    let a = K::sym();
    let b = K::sym();
    let r = a.cel() + b.cel();
    let (sa, sb) = match (a, b) {
        (V::S(x), V::S(y)) | (V::Y(x), V::Y(y)) => (x, y),
        _ => unreachable!(),
    };
    let (want, n) = short_concat(sa, sb);
    let got: &[u8] = match (&r, a) {
        (CelValue::String(s), V::S(_)) => s.as_bytes(),
        (CelValue::Bytes(y), V::Y(_)) => y.as_slice(),
        _ => {
            assert!(false, "concatenation must return a value of the operands' type");
            &[]
        }
    };
    witness!(n == 4, "longest concatenation");
    witness!(n == 0, "empty concatenation");
    assert!(got.len() == n, "concatenation length is the sum of the lengths");
    let mut i = 0usize;
    while i < 4 {
        if i < n {
            assert!(got[i] == want[i], "concatenation preserves every byte in order");
        }
        i += 1;
    }
    core::mem::forget(r);
}

/// size(x) as method and as function = byte count
pub fn size_of<K: Kind>() {
    let a = K::sym();
    let n = match a {
        V::S(s) | V::Y(s) => s.len as u64,
        _ => unreachable!(),
    };
    let m = vf::size(a.cel(), vec![CelValue::Null]);
    let f = vf::size(CelValue::Null, vec![a.cel()]);
    witness!(n == MAX_STR as u64, "longest operand");
    assert!(matches!(m, CelValue::UInt(x) if x == n), "x.size() is the byte count");
    assert!(matches!(f, CelValue::UInt(x) if x == n), "size(x) is the byte count");
    core::mem::forget((m, f));
}

/// size of a string holding one two-byte UTF-8 scalar (plus up to one ASCII byte) is its
/// UTF-8 length
pub fn size_utf8() {
    let b0: u8 = any();
    let b1: u8 = any();
    let b2: u8 = any();
    let extra: bool = any();
    assume(b0 >= 0xC2 && b0 <= 0xDF && b1 >= 0x80 && b1 <= 0xBF && b2 < 0x80);
    let bytes = if extra { vec![b0, b1, b2] } else { vec![b0, b1] };
    let n = if extra { 3u64 } else { 2u64 };
    let s = unsafe { String::from_utf8_unchecked(bytes) };
    let m = vf::size(CelValue::String(s), vec![CelValue::Null]);
    witness!(extra, "three bytes");
    assert!(matches!(m, CelValue::UInt(x) if x == n), "size of a string is its UTF-8 length");
    core::mem::forget(m);
}

/// `a in b` and `b[a]` with a scalar container operand fail
pub fn scalar_container<K1: Kind, K2: Kind>() {
    let a = K1::sym();
    let b = K2::sym();
    let r = a.cel().in_(b.cel());
    witness!(true, "reached");
    assert!(r.is_err(), "`in` is an error for a right operand that is not a list, map or string");
    let i = b.cel().index(a.cel());
    assert!(i.is_err(), "indexing a scalar is an error");
    core::mem::forget((r, i));
}
