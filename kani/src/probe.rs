use crate::kinds::*;
use crate::sym::*;
use rscel::CelValue;
use rscel::serde_json::Value;

fn mk() -> (Short, String) {
    let a = KS::sym();
    let s = match a { V::S(s) => s, _ => unreachable!() };
    (s, unsafe { String::from_utf8_unchecked(s.bytes()) })
}
fn cmp(g: &[u8], s: Short) {
    assert!(g.len() == s.len as usize, "len");
    let mut i = 0usize;
    while i < 2 { if i < g.len() { assert!(g[i] == s.b[i], "bytes"); } i += 1; }
}
harness!(probe_a, 6, { let (s, t) = mk(); let c = t.clone(); cmp(c.as_bytes(), s); core::mem::forget((t, c)); });
harness!(probe_b, 6, { let (s, t) = mk(); let v = Value::String(t); let c = if let Value::String(x) = &v { x.clone() } else { String::new() }; cmp(c.as_bytes(), s); core::mem::forget((v, c)); });
harness!(probe_c, 6, { let (s, t) = mk(); let v = Value::String(t); let r = CelValue::from(&v); if let CelValue::String(g) = &r { cmp(g.as_bytes(), s); } core::mem::forget((v, r)); });
harness!(probe_d, 6, { let (s, t) = mk(); cmp(t.as_bytes(), s); core::mem::forget(t); });
fn mk2() -> (Short, String) {
    let a = KS::sym();
    let s = match a { V::S(s) => s, _ => unreachable!() };
    let mut v = vec![s.b[0], s.b[1], s.b[2]];
    v.truncate(s.len as usize);
    (s, unsafe { String::from_utf8_unchecked(v) })
}
harness!(probe_e, 6, { let (s, t) = mk2(); let c = t.clone(); cmp(c.as_bytes(), s); core::mem::forget((t, c)); });
harness!(probe_f, 6, { let (s, t) = mk2(); let v = Value::String(t); let r = CelValue::from(&v); if let CelValue::String(g) = &r { cmp(g.as_bytes(), s); } core::mem::forget((v, r)); });
harness!(probe_g, 8, { let (s, t) = mk2(); let (s2, t2) = mk2(); let r = CelValue::String(t) + CelValue::String(t2); if let CelValue::String(g) = &r { assert!(g.len() == (s.len + s2.len) as usize); if s.len == 1 && s2.len == 2 { assert!(g.as_bytes()[0] == s.b[0] && g.as_bytes()[2] == s2.b[1]); } } core::mem::forget(r); });
