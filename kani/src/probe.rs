use crate::sym::*;
use rscel::CelValue;

harness!(probe_idx1, 4, {
    let x: i64 = any(); let i: i64 = any();
    let r = CelValue::List(vec![CelValue::Int(x)]).index(CelValue::Int(i));
    if i == 0 || i == -1 { assert!(matches!(r, CelValue::Int(y) if y == x), "elem"); } else { assert!(r.is_err(), "oob"); }
    core::mem::forget(r);
});
harness!(probe_idx0, 4, {
    let i: i64 = any();
    let r = CelValue::List(vec![]).index(CelValue::Int(i));
    assert!(r.is_err(), "empty");
    core::mem::forget(r);
});
harness!(probe_in1, 4, {
    let x: i64 = any(); let y: i64 = any();
    let r = CelValue::Int(y).in_(CelValue::List(vec![CelValue::Int(x)]));
    assert!(matches!(r, CelValue::Bool(b) if b == (x == y)), "in");
    core::mem::forget(r);
});
harness!(probe_idxu1, 4, {
    let x: i64 = any(); let i: u64 = any();
    let r = CelValue::List(vec![CelValue::Int(x)]).index(CelValue::UInt(i));
    if i == 0 { assert!(matches!(r, CelValue::Int(y) if y == x), "elem"); } else { assert!(r.is_err(), "oob"); }
    core::mem::forget(r);
});
