//! C10 - last sentence: the VM rejects any out-of-range jump instead of reading outside.
use crate::sym::{any, assume};
use crate::witness;
use rscel::verif_hooks::Interpreter;

pub fn jump_target() {
    let pc: usize = any();
    let dist: i32 = any();
    let len: usize = any();
    // precondition established by the VM loop: the jump instruction sat at index pc-1 of a
    // Vec of `len` instructions (a Vec never holds more than isize::MAX elements)
    assume(pc >= 1 && pc <= len && len <= isize::MAX as usize);
    let r = Interpreter::verif_checked_jump_target(pc, dist, len);
    let want = (pc as i128) + (dist as i128);
    let in_range = want >= 0 && want <= len as i128;
    witness!(in_range && dist < 0, "accepted backward target");
    witness!(in_range && dist > 0, "accepted forward target");
    witness!(want == len as i128, "target exactly at the end");
    witness!(want < 0, "target before the block");
    witness!(want > len as i128, "target past the end");
    match r {
        Ok(t) => {
            assert!(in_range, "an out-of-range jump target was accepted");
            assert!(t as i128 == want, "accepted jump target must be pc + dist");
        }
        Err(_) => {
            assert!(!in_range, "an in-range jump target was rejected");
        }
    }
}
