//! Native confirmation of counterexamples found by the MIR symbolic executor (/verif/mirsym).
//!
//! `mreplay eval`  (stdin: JSON) runs CEL programs through the public API and prints the outcomes.
//! `mreplay vm`    (stdin: JSON) runs a concrete bytecode program on the real VM
//!                 (`Interpreter::run_raw`) and on a small reference stack machine that uses the
//!                 real value operations, and prints both outcomes.
//! Built only natively (never under Kani); uses the `verif_hooks` re-exports for the VM types.
#![allow(dead_code)]
#![allow(unreachable_patterns)]
#[cfg(kani)]
fn main() {}

#[cfg(not(kani))]
mod imp {
    use rscel::verif_hooks::{construct_type, ByteCode, CelByteCode, Interpreter, JmpWhen};
    use rscel::{BindContext, CelContext, CelError, CelResult, CelValue, CelValueDyn, RsCelFunction, RsCelMacro};
    use serde_json::{json, Value};
    use std::collections::HashMap;
    use std::io::Read;
    use std::panic::{catch_unwind, AssertUnwindSafe};

    pub fn err_kind(e: &CelError) -> String {
        let d = format!("{:?}", e);
        d.split(|c| c == '(' || c == ' ' || c == '{').next().unwrap_or("").to_string()
    }

    fn outcome(r: CelResult<CelValue>) -> Value {
        match r {
            Ok(CelValue::Err(e)) => json!({"err": err_kind(&e), "debug": format!("{:?}", e), "as_value": true}),
            Ok(v) => json!({"ok": format!("{:?}", v)}),
            Err(e) => json!({"err": err_kind(&e), "debug": format!("{:?}", e)}),
        }
    }

    fn guarded<F: FnOnce() -> Value>(f: F) -> Value {
        match catch_unwind(AssertUnwindSafe(f)) {
            Ok(v) => v,
            Err(e) => {
                let msg = if let Some(s) = e.downcast_ref::<&str>() {
                    s.to_string()
                } else if let Some(s) = e.downcast_ref::<String>() {
                    s.clone()
                } else {
                    "<panic>".to_string()
                };
                json!({"panic": msg})
            }
        }
    }

    pub fn eval_mode(input: &Value) -> Value {
        let mut results = Vec::new();
        let mut ctx = CelContext::new();
        let mut bind = BindContext::new();
        if let Some(p) = input.get("params") {
            if let Err(e) = bind.bind_params_from_json_obj(p.clone()) {
                return json!({"setup_err": format!("{:?}", e)});
            }
        }
        let mut compile_errs = HashMap::new();
        for p in input["programs"].as_array().cloned().unwrap_or_default() {
            let name = p[0].as_str().unwrap_or("").to_string();
            let src = p[1].as_str().unwrap_or("").to_string();
            let r = catch_unwind(AssertUnwindSafe(|| ctx.add_program_str(&name, &src)));
            match r {
                Ok(Ok(())) => {}
                Ok(Err(e)) => {
                    compile_errs.insert(name, json!({"err": err_kind(&e), "debug": format!("{:?}", e), "compile": true}));
                }
                Err(_) => {
                    compile_errs.insert(name, json!({"panic": "while compiling"}));
                }
            }
        }
        for n in input["run"].as_array().cloned().unwrap_or_default() {
            let name = n.as_str().unwrap_or("").to_string();
            if let Some(e) = compile_errs.get(&name) {
                results.push(e.clone());
                continue;
            }
            results.push(guarded(|| outcome(ctx.exec(&name, &bind))));
        }
        json!({"results": results})
    }

    // ------------------------------------------------------------------ VM differential
    fn value_of(v: &Value) -> CelValue {
        let (k, x) = v.as_object().and_then(|o| o.iter().next()).expect("value object");
        match k.as_str() {
            "Int" => CelValue::from_int(x.as_i64().unwrap()),
            "UInt" => CelValue::from_uint(x.as_u64().unwrap()),
            "Float" => CelValue::from_float(x.as_f64().unwrap()),
            "Bool" => CelValue::from_bool(x.as_bool().unwrap()),
            "Str" => CelValue::from_string(x.as_str().unwrap().to_string()),
            "Bytes" => CelValue::from_bytes(x.as_array().unwrap().iter().map(|b| b.as_u64().unwrap() as u8).collect()),
            "Null" => CelValue::from_null(),
            "Ident" => CelValue::from_ident(x.as_str().unwrap()),
            "Type" => CelValue::from_type(x.as_str().unwrap()),
            "List" => CelValue::from_list(x.as_array().unwrap().iter().map(value_of).collect()),
            "Map" => {
                let mut m = HashMap::new();
                for (k, v) in x.as_object().unwrap() {
                    m.insert(k.clone(), value_of(v));
                }
                CelValue::from_map(m)
            }
            "ByteCode" => CelValue::ByteCode(program_of(x)),
            "Err" => CelValue::from_err(match x.as_str().unwrap() {
                "DivideByZero" => CelError::DivideByZero,
                "Value" => CelError::value("v"),
                "Argument" => CelError::argument("a"),
                "InvalidOp" => CelError::invalid_op("o"),
                "Runtime" => CelError::runtime("r"),
                "Binding" => CelError::binding("b"),
                "Attribute" => CelError::attribute("p", "f"),
                "Internal" => CelError::internal("i"),
                _ => CelError::misc("m"),
            }),
            other => panic!("value kind {}", other),
        }
    }

    fn instr_of(i: &Value) -> ByteCode {
        let n = || i["n"].as_u64().unwrap() as u32;
        match i["op"].as_str().unwrap() {
            "Push" => ByteCode::Push(value_of(&i["val"])),
            "Pop" => ByteCode::Pop,
            "Test" => ByteCode::Test,
            "Dup" => ByteCode::Dup,
            "Or" => ByteCode::Or,
            "And" => ByteCode::And,
            "Not" => ByteCode::Not,
            "Neg" => ByteCode::Neg,
            "Add" => ByteCode::Add,
            "Sub" => ByteCode::Sub,
            "Mul" => ByteCode::Mul,
            "Div" => ByteCode::Div,
            "Mod" => ByteCode::Mod,
            "Lt" => ByteCode::Lt,
            "Le" => ByteCode::Le,
            "Eq" => ByteCode::Eq,
            "Ne" => ByteCode::Ne,
            "Ge" => ByteCode::Ge,
            "Gt" => ByteCode::Gt,
            "In" => ByteCode::In,
            "Jmp" => ByteCode::Jmp(i["dist"].as_i64().unwrap() as i32),
            "JmpCond" => ByteCode::JmpCond {
                when: if i["when"].as_bool().unwrap() { JmpWhen::True } else { JmpWhen::False },
                dist: i["dist"].as_i64().unwrap() as i32,
            },
            "MkList" => ByteCode::MkList(n()),
            "MkDict" => ByteCode::MkDict(n()),
            "Index" => ByteCode::Index,
            "Access" => ByteCode::Access,
            "Call" => ByteCode::Call(n()),
            "FmtString" => ByteCode::FmtString(n()),
            other => panic!("opcode {}", other),
        }
    }

    fn program_of(v: &Value) -> CelByteCode {
        CelByteCode::from_vec(v.as_array().unwrap().iter().map(instr_of).collect())
    }

    enum Slot {
        Val(CelValue),
        Bound(String, bool, CelValue), // name, is function (else macro), receiver
    }

    struct Ref<'a> {
        ctx: &'a CelContext,
        bind: &'a BindContext<'a>,
        types: &'a HashMap<String, CelValue>,
        interp: &'a Interpreter<'a>,
        stack: Vec<Slot>,
    }

    type R<T> = Result<T, CelError>;

    impl<'a> Ref<'a> {
        fn pop_raw(&mut self) -> R<Slot> {
            self.stack.pop().ok_or_else(|| CelError::runtime("No value on stack!"))
        }
        fn resolve(&mut self, s: Slot) -> R<Slot> {
            if let Slot::Val(CelValue::Ident(name)) = &s {
                if let Some(t) = self.types.get(name) {
                    return Ok(Slot::Val(t.clone()));
                }
                if let Some(p) = self.bind.get_param(name) {
                    return Ok(Slot::Val(p.clone()));
                }
                if self.ctx.get_program(name).is_some() {
                    let mut c = self.ctx.clone();
                    return c.exec(name, self.bind).map(Slot::Val);
                }
                return Ok(Slot::Val(CelValue::from_err(CelError::binding(name))));
            }
            Ok(s)
        }
        fn pop(&mut self) -> R<Slot> {
            let s = self.pop_raw()?;
            self.resolve(s)
        }
        fn pop_val(&mut self) -> R<CelValue> {
            match self.pop()? {
                Slot::Val(v) => Ok(v),
                _ => Err(CelError::internal("Expected value")),
            }
        }
        fn callable(&self, name: &str) -> Option<bool> {
            if self.bind.get_func(name).is_some() {
                Some(true)
            } else if self.bind.get_macro(name).is_some() {
                Some(false)
            } else {
                None
            }
        }
        fn args_values(&self, args: Vec<CelValue>) -> R<Vec<CelValue>> {
            let mut out = Vec::new();
            for a in args {
                if let CelValue::ByteCode(bc) = a {
                    out.push(self.interp.run_raw(&bc, true)?);
                } else {
                    out.push(a);
                }
            }
            Ok(out)
        }
        fn macro_call(&self, name: &str, this: CelValue, args: &Vec<CelValue>) -> R<CelValue> {
            let mut v = Vec::new();
            for a in args.iter() {
                if let CelValue::ByteCode(bc) = a {
                    v.push(bc);
                } else {
                    return Err(CelError::internal("macro args must be bytecode"));
                }
            }
            let m = self.bind.get_macro(name).unwrap();
            Ok(m(self.interp, this, &v))
        }
        fn jump(pc: usize, dist: i32, len: usize) -> R<usize> {
            let t = pc as i128 + dist as i128;
            if t < 0 || t > len as i128 {
                Err(CelError::runtime("Jump target out of range"))
            } else {
                Ok(t as usize)
            }
        }
        fn run(&mut self, prog: &[ByteCode], resolve: bool) -> R<CelValue> {
            let mut pc = 0usize;
            let mut steps = 0;
            while pc < prog.len() {
                steps += 1;
                if steps > 10_000 {
                    return Err(CelError::misc("reference: step budget"));
                }
                let ins = &prog[pc];
                pc += 1;
                match ins {
                    ByteCode::Push(v) => self.stack.push(Slot::Val(v.clone())),
                    ByteCode::Pop => {
                        self.pop_val()?;
                    }
                    ByteCode::Test => {
                        let v = self.pop_val()?;
                        if v.is_err() {
                            self.stack.push(Slot::Val(v))
                        } else {
                            self.stack.push(Slot::Val(CelValue::from_bool(v.is_truthy())))
                        }
                    }
                    ByteCode::Dup => {
                        let v = self.pop_val()?;
                        self.stack.push(Slot::Val(v.clone()));
                        self.stack.push(Slot::Val(v));
                    }
                    ByteCode::Not => {
                        let v = self.pop_val()?;
                        self.stack.push(Slot::Val(!v));
                    }
                    ByteCode::Neg => {
                        let v = self.pop_val()?;
                        self.stack.push(Slot::Val(-v));
                    }
                    ByteCode::Or | ByteCode::And | ByteCode::Add | ByteCode::Sub | ByteCode::Mul | ByteCode::Div | ByteCode::Mod | ByteCode::Lt
                    | ByteCode::Le | ByteCode::Eq | ByteCode::Ne | ByteCode::Ge | ByteCode::Gt | ByteCode::In | ByteCode::Index => {
                        let b = self.pop_val()?;
                        let a = self.pop_val()?;
                        let r = match ins {
                            ByteCode::Or => a.or(&b),
                            ByteCode::And => a.and(b),
                            ByteCode::Add => a + b,
                            ByteCode::Sub => a - b,
                            ByteCode::Mul => a * b,
                            ByteCode::Div => a / b,
                            ByteCode::Mod => a % b,
                            ByteCode::Lt => a.lt(b),
                            ByteCode::Le => a.le(b),
                            ByteCode::Eq => CelValueDyn::eq(&a, &b),
                            ByteCode::Ne => a.neq(b),
                            ByteCode::Ge => a.ge(b),
                            ByteCode::Gt => a.gt(b),
                            ByteCode::In => a.in_(b),
                            _ => a.index(b),
                        };
                        self.stack.push(Slot::Val(r));
                    }
                    ByteCode::Jmp(d) => pc = Self::jump(pc, *d, prog.len())?,
                    ByteCode::JmpCond { when, dist } => {
                        let v = self.pop_val()?;
                        let w = matches!(when, JmpWhen::True);
                        match v {
                            CelValue::Bool(b) => {
                                if b == w {
                                    pc = Self::jump(pc, *dist, prog.len())?
                                }
                            }
                            CelValue::Err(_) => {
                                if !w {
                                    pc = Self::jump(pc, *dist, prog.len())?
                                }
                            }
                            _ => return Err(CelError::invalid_op("JMP on a non-bool")),
                        }
                    }
                    ByteCode::MkList(n) => {
                        let mut v = Vec::new();
                        for _ in 0..*n {
                            v.push(self.pop_val()?);
                        }
                        v.reverse();
                        self.stack.push(Slot::Val(CelValue::from_list(v)));
                    }
                    ByteCode::MkDict(n) => {
                        // entries are popped last-to-first; the entry that comes last in the source wins
                        let mut entries = Vec::new();
                        for _ in 0..*n {
                            let k = match self.pop_val()? {
                                CelValue::String(k) => k,
                                _ => return Err(CelError::value("Only strings can be used as Object keys")),
                            };
                            let v = self.pop_val()?;
                            entries.push((k, v));
                        }
                        let mut m = HashMap::new();
                        for (k, v) in entries.into_iter().rev() {
                            m.insert(k, v);
                        }
                        self.stack.push(Slot::Val(CelValue::from_map(m)));
                    }
                    ByteCode::FmtString(n) => {
                        let mut segs = Vec::new();
                        for _ in 0..*n {
                            segs.push(self.pop_val()?);
                        }
                        segs.reverse();
                        let mut s = String::new();
                        for seg in segs {
                            if let CelValue::String(x) = seg {
                                s.push_str(&x)
                            } else {
                                return Err(CelError::runtime("Expected string from format string specifier"));
                            }
                        }
                        self.stack.push(Slot::Val(CelValue::from_string(s)));
                    }
                    ByteCode::Access => {
                        let idx = match self.pop_raw()? {
                            Slot::Val(v) => v,
                            _ => return Err(CelError::internal("Expected value")),
                        };
                        if let CelValue::Ident(name) = idx {
                            let obj = self.pop_val()?;
                            match &obj {
                                CelValue::Map(m) => match m.get(&name) {
                                    Some(v) => self.stack.push(Slot::Val(v.clone())),
                                    None => match self.callable(&name) {
                                        Some(f) => self.stack.push(Slot::Bound(name, f, obj)),
                                        None => self.stack.push(Slot::Val(CelValue::from_err(CelError::attribute("obj", &name)))),
                                    },
                                },
                                CelValue::Dyn(d) => self.stack.push(Slot::Val(d.access(&name))),
                                _ => match self.callable(&name) {
                                    Some(f) => self.stack.push(Slot::Bound(name, f, obj)),
                                    None => self.stack.push(Slot::Val(CelValue::from_err(CelError::attribute("obj", &name)))),
                                },
                            }
                        } else {
                            self.pop_val()?;
                            self.stack.push(Slot::Val(CelValue::from_err(CelError::value("Index operator invalid"))));
                        }
                    }
                    ByteCode::Call(n) => {
                        let callee = self.pop_raw()?;
                        let mut args = Vec::new();
                        for _ in 0..*n {
                            args.push(self.pop_val()?);
                        }
                        match callee {
                            Slot::Bound(name, is_fn, this) => {
                                if is_fn {
                                    let vals = self.args_values(args)?;
                                    let f = self.bind.get_func(&name).unwrap();
                                    self.stack.push(Slot::Val(f(this, vals)));
                                } else {
                                    let r = self.macro_call(&name, this, &args)?;
                                    self.stack.push(Slot::Val(r));
                                }
                            }
                            Slot::Val(CelValue::Ident(name)) => {
                                if let Some(f) = self.bind.get_func(&name) {
                                    let vals = self.args_values(args)?;
                                    self.stack.push(Slot::Val(f(CelValue::from_null(), vals)));
                                } else if self.bind.get_macro(&name).is_some() {
                                    let r = self.macro_call(&name, CelValue::from_null(), &args)?;
                                    self.stack.push(Slot::Val(r));
                                } else if let Some(CelValue::Type(t)) = self.types.get(&name) {
                                    let vals = self.args_values(args)?;
                                    self.stack.push(Slot::Val(construct_type(t, vals)));
                                } else {
                                    self.stack.push(Slot::Val(CelValue::from_err(CelError::runtime("not callable"))));
                                }
                            }
                            Slot::Val(CelValue::Type(t)) => {
                                let vals = self.args_values(args)?;
                                self.stack.push(Slot::Val(construct_type(&t, vals)));
                            }
                            Slot::Val(_) => self.stack.push(Slot::Val(CelValue::from_err(CelError::runtime("cannot be called")))),
                        }
                    }
                    // an instruction this reference does not know (the tree under test may have grown one)
                    _ => return Err(CelError::misc("reference: unknown instruction")),
                }
            }
            let last = if resolve {
                self.pop()?
            } else {
                match self.pop_raw()? {
                    Slot::Val(CelValue::Ident(n)) => match self.bind.get_param(&n) {
                        Some(p) => Slot::Val(p.clone()),
                        None => Slot::Val(CelValue::from_ident(&n)),
                    },
                    s => s,
                }
            };
            match last {
                Slot::Val(v) => v.into_result(),
                _ => Err(CelError::internal("Expected value")),
            }
        }
    }

    pub fn vm_mode(input: &Value) -> Value {
        let prog = program_of(&input["instrs"]);
        let resolve = input["resolve"].as_bool().unwrap_or(true);
        let mut ctx = CelContext::new();
        for (n, s) in input["programs"].as_object().cloned().unwrap_or_default() {
            if let Err(e) = ctx.add_program_str(&n, s.as_str().unwrap_or("")) {
                return json!({"setup_err": format!("{:?}", e)});
            }
        }
        let mut funcs: Vec<(&'static str, &'static RsCelFunction)> = Vec::new();
        for n in input["funcs"].as_array().cloned().unwrap_or_default() {
            let name: &'static str = Box::leak(n.as_str().unwrap().to_string().into_boxed_str());
            let f: Box<RsCelFunction> = Box::new(move |this, args| CelValue::from_string(format!("F<{}>({:?}; {:?})", name, this, args)));
            funcs.push((name, Box::leak(f)));
        }
        let mut macros: Vec<(&'static str, &'static RsCelMacro)> = Vec::new();
        for n in input["macros"].as_array().cloned().unwrap_or_default() {
            let name: &'static str = Box::leak(n.as_str().unwrap().to_string().into_boxed_str());
            let m: Box<RsCelMacro> = Box::new(move |_i, this, codes| CelValue::from_string(format!("M<{}>({:?}; {} blocks)", name, this, codes.len())));
            macros.push((name, Box::leak(m)));
        }
        let mut bind = BindContext::new();
        for (n, v) in input["params"].as_object().cloned().unwrap_or_default() {
            bind.bind_param(&n, value_of(&v));
        }
        for (n, f) in funcs.iter() {
            bind.bind_func(n, *f);
        }
        for (n, m) in macros.iter() {
            bind.bind_macro(n, *m);
        }
        // the built-in type names and their values, read off the VM itself (only the values, not the order of lookups)
        let mut types = HashMap::new();
        {
            let plain = BindContext::new();
            let c0 = CelContext::new();
            let it = Interpreter::new(&c0, &plain);
            for t in ["bool", "int", "uint", "float", "double", "string", "bytes", "type", "timestamp", "duration", "null_type", "dyn"] {
                let p = CelByteCode::from_vec(vec![ByteCode::Push(CelValue::from_ident(t))]);
                if let Ok(v @ CelValue::Type(_)) = it.run_raw(&p, true) {
                    types.insert(t.to_string(), v);
                }
            }
        }
        let interp = Interpreter::new(&ctx, &bind);
        let vm = guarded(|| outcome(interp.run_raw(&prog, resolve)));
        let code: Vec<ByteCode> = input["instrs"].as_array().unwrap().iter().map(instr_of).collect();
        let reference = guarded(|| {
            let mut r = Ref { ctx: &ctx, bind: &bind, types: &types, interp: &interp, stack: Vec::new() };
            outcome(r.run(&code, resolve))
        });
        let same = match (&vm, &reference) {
            (a, b) if a.get("ok").is_some() && b.get("ok").is_some() => a["ok"] == b["ok"],
            // failures are compared by class: absent data (Binding / Attribute, exactly) versus any other failure
            (a, b) if a.get("err").is_some() && b.get("err").is_some() => {
                let absent = |k: &Value| k == "Binding" || k == "Attribute";
                if absent(&a["err"]) || absent(&b["err"]) { a["err"] == b["err"] } else { true }
            }
            _ => false,
        };
        json!({"vm": vm, "reference": reference, "agree": same})
    }

    pub fn resolve_mode(input: &Value) -> Value {
        use rscel::verif_hooks::{PreResolvedByteCode, PreResolvedCodePoint};
        let mut code = PreResolvedByteCode::new();
        let mut pts = Vec::new();
        for p in input["points"].as_array().cloned().unwrap_or_default() {
            let (k, x) = p.as_object().and_then(|o| o.iter().next().map(|(k, v)| (k.clone(), v.clone()))).unwrap();
            pts.push(match k.as_str() {
                "B" => PreResolvedCodePoint::Bytecode(ByteCode::Push(CelValue::from_int(x.as_i64().unwrap_or(0)))),
                "J" => PreResolvedCodePoint::Jmp { label: x.as_u64().unwrap() as u32 },
                "JC" => PreResolvedCodePoint::JmpCond {
                    when: if x[0].as_bool().unwrap() { JmpWhen::True } else { JmpWhen::False },
                    label: x[1].as_u64().unwrap() as u32,
                },
                _ => PreResolvedCodePoint::Label(x.as_u64().unwrap() as u32),
            });
        }
        code.extend(pts);
        let out = code.resolve();
        let mut v = Vec::new();
        for i in 0..out.len() {
            v.push(match &out[i] {
                ByteCode::Jmp(d) => format!("J({})", d),
                ByteCode::JmpCond { when, dist } => format!("JC({},{})", matches!(when, JmpWhen::True), dist),
                ByteCode::Push(CelValue::Int(n)) => format!("B({})", n),
                other => format!("{:?}", other),
            });
        }
        json!({"resolved": v})
    }

    pub fn serde_mode(input: &Value) -> Value {
        use rscel::Program;
        let mut out = Vec::new();
        for src in input["sources"].as_array().cloned().unwrap_or_default() {
            let src = src.as_str().unwrap_or("").to_string();
            let p = match Program::from_source(&src) {
                Ok(p) => p,
                Err(e) => {
                    out.push(json!({"source": src, "compile_err": format!("{:?}", e)}));
                    continue;
                }
            };
            let run = |p: &Program| {
                let mut c = CelContext::new();
                c.add_program("m", p.clone());
                let mut b = BindContext::new();
                b.bind_param("x", CelValue::from_int(3));
                guarded(|| outcome(c.exec("m", &b)))
            };
            let orig = run(&p);
            let same = |a: &Value, b: &Value| (a.get("ok").is_some() && a.get("ok") == b.get("ok")) || (a.get("err").is_some() && a.get("err") == b.get("err"));
            let bin = match bincode::serialize(&p) {
                Err(e) => json!({"status": "serialize_failed", "msg": format!("{:?}", e)}),
                Ok(bytes) => match bincode::deserialize::<Program>(&bytes) {
                    Err(e) => json!({"status": "deserialize_failed", "msg": format!("{:?}", e)}),
                    Ok(q) => {
                        let back = run(&q);
                        if same(&orig, &back) { json!({"status": "ok"}) } else { json!({"status": "differs", "orig": orig.clone(), "back": back}) }
                    }
                },
            };
            let js = match serde_json::to_string(&p) {
                Err(e) => json!({"status": "serialize_failed", "msg": format!("{:?}", e)}),
                Ok(t) => match serde_json::from_str::<Program>(&t) {
                    Err(e) => json!({"status": "deserialize_failed", "msg": format!("{:?}", e)}),
                    Ok(q) => {
                        let back = run(&q);
                        if same(&orig, &back) { json!({"status": "ok"}) } else { json!({"status": "differs", "orig": orig.clone(), "back": back}) }
                    }
                },
            };
            out.push(json!({"source": src, "bincode": bin, "json": js}));
        }
        json!({"round_trips": out})
    }

    pub fn token_mode(input: &Value) -> Value {
        use rscel::verif_hooks::Token;
        use rscel::{StringTokenizer, Tokenizer};
        let text = input["text"].as_str().unwrap_or("").to_string();
        let mut t = StringTokenizer::with_input(&text);
        match t.next() {
            Err(e) => json!({"error": format!("{:?}", e), "at": [e.loc().line(), e.loc().col()]}),
            Ok(None) => json!({"none": true}),
            Ok(Some(tok)) => {
                let span = json!([tok.loc.start().line(), tok.loc.start().col(), tok.loc.end().line(), tok.loc.end().col()]);
                let rest = matches!(t.next(), Ok(Some(_)));
                match tok.token {
                    Token::IntLit(v) => json!({"kind": "IntLit", "value": v.to_string(), "span": span, "more": rest}),
                    Token::UIntLit(v) => json!({"kind": "UIntLit", "value": v.to_string(), "span": span, "more": rest}),
                    Token::FloatLit(v) => json!({"kind": "FloatLit", "bits": v.to_bits().to_string(), "span": span, "more": rest}),
                    Token::ByteStringLit(v) => json!({"kind": "ByteStringLit", "bytes": v.as_slice().to_vec(), "span": span, "more": rest}),
                    Token::StringLit(v) => json!({"kind": "StringLit", "chars": v.chars().map(|c| c as u32).collect::<Vec<u32>>(), "span": span, "more": rest}),
                    other => json!({"kind": format!("{:?}", other), "span": span, "more": rest}),
                }
            }
        }
    }

    pub fn details_mode(input: &Value) -> Value {
        use rscel::Program;
        let strs = |k: &str| -> Vec<String> { input[k].as_array().cloned().unwrap_or_default().iter().map(|x| x.as_str().unwrap_or("").to_string()).collect() };
        let names = strs("names");
        let src = if names.is_empty() { "1".to_string() } else { names.join(" + ") };
        let mut p = match Program::from_source(&src) {
            Ok(p) => p,
            Err(e) => return json!({"compile_err": format!("{:?}", e)}),
        };
        let funcs: Vec<(&'static str, &'static RsCelFunction)> = strs("funcs")
            .into_iter()
            .map(|n| {
                let name: &'static str = Box::leak(n.into_boxed_str());
                let f: Box<RsCelFunction> = Box::new(|_t, _a| CelValue::from_null());
                (name, &*Box::leak(f))
            })
            .collect();
        let macros: Vec<(&'static str, &'static RsCelMacro)> = strs("macros")
            .into_iter()
            .map(|n| {
                let name: &'static str = Box::leak(n.into_boxed_str());
                let m: Box<RsCelMacro> = Box::new(|_i, _t, _c| CelValue::from_null());
                (name, &*Box::leak(m))
            })
            .collect();
        // an empty binding set apart from what the scenario binds (the default functions/macros do not
        // collide with the generated names)
        let mut bind = BindContext::new();
        for n in strs("params") {
            bind.bind_param(&n, CelValue::from_int(1));
        }
        for (n, f) in funcs.iter() {
            bind.bind_func(n, *f);
        }
        for (n, m) in macros.iter() {
            bind.bind_macro(n, *m);
        }
        let before: Vec<String> = { let mut v: Vec<String> = p.params().iter().map(|x| x.to_string()).collect(); v.sort(); v };
        p.details_mut().filter_from_bindings(&bind);
        let mut after: Vec<String> = p.params().iter().map(|x| x.to_string()).collect();
        after.sort();
        json!({"reported": before, "filtered": after})
    }

    pub fn parse_mode(input: &Value) -> Value {
        use rscel::Program;
        let src = input["source"].as_str().unwrap_or("").to_string();
        match Program::from_source(&src) {
            Err(e) => json!({"error": err_kind(&e), "debug": format!("{:?}", e)}),
            Ok(p) => {
                let mut params: Vec<String> = p.params().iter().map(|x| x.to_string()).collect();
                params.sort();
                let ast = p.ast().map(|a| serde_json::to_value(a).unwrap_or(Value::Null)).unwrap_or(Value::Null);
                let mut c = CelContext::new();
                c.add_program("m", p.clone());
                let mut b = BindContext::new();
                if let Some(ps) = input.get("params") {
                    let _ = b.bind_params_from_json_obj(ps.clone());
                }
                let result = guarded(|| outcome(c.exec("m", &b)));
                json!({"ast": ast, "params": params, "bytecode": p.dumps_bc(), "result": result})
            }
        }
    }

    pub fn main() {
        let mode = std::env::args().nth(1).unwrap_or_default();
        let mut s = String::new();
        std::io::stdin().read_to_string(&mut s).unwrap();
        let out: Vec<Value> = s
            .lines()
            .filter(|l| !l.trim().is_empty())
            .map(|l| {
                let v: Value = serde_json::from_str(l).unwrap_or(Value::Null);
                match mode.as_str() {
                    "eval" => eval_mode(&v),
                    "vm" => guarded(|| vm_mode(&v)),
                    "resolve" => guarded(|| resolve_mode(&v)),
                    "serde" => guarded(|| serde_mode(&v)),
                    "token" => guarded(|| token_mode(&v)),
                    "details" => guarded(|| details_mode(&v)),
                    "parse" => guarded(|| parse_mode(&v)),
                    _ => json!({"error": "mode"}),
                }
            })
            .collect();
        for o in out {
            println!("{}", o);
        }
    }
}

#[cfg(not(kani))]
fn main() {
    imp::main()
}
