//! Native replay of a solver assignment: `replay <harness> <hex>,<hex>,...`
//! Runs the *same* harness body against the real (un-stubbed) build with the concrete byte
//! vectors Kani reported, in whatever profile this binary was built with.
//! Exit codes: 0 = harness body completed (assignment does NOT violate natively),
//!             1 = panic/assertion failure reproduced, 3 = assumption violated / bad input.
#[cfg(not(kani))]
use rscel_verif::sym;
#[cfg(not(kani))]
use std::panic;

#[cfg(kani)]
fn main() {}

#[cfg(not(kani))]
fn unhex(s: &str) -> Vec<u8> {
    let s = s.trim();
    (0..s.len() / 2).map(|i| u8::from_str_radix(&s[2 * i..2 * i + 2], 16).unwrap()).collect()
}

#[cfg(not(kani))]
fn main() {
    let args: Vec<String> = std::env::args().collect();
    if args.len() < 2 {
        eprintln!("usage: replay <harness> [hexbytes,hexbytes,...]");
        std::process::exit(3);
    }
    let name = &args[1];
    let vals: Vec<Vec<u8>> = if args.len() > 2 && !args[2].is_empty() {
        args[2].split(',').map(unhex).collect()
    } else {
        Vec::new()
    };
    let f = match rscel_verif::gen::ALL.iter().find(|(n, _)| n == name) {
        Some((_, f)) => *f,
        None => {
            eprintln!("unknown harness {}", name);
            std::process::exit(3);
        }
    };
    sym::load(vals);
    let r = panic::catch_unwind(f);
    match r {
        Ok(()) => {
            println!("REPLAY-OK harness={} (no violation natively)", name);
            std::process::exit(0);
        }
        Err(e) => {
            let msg = if let Some(s) = e.downcast_ref::<&str>() {
                s.to_string()
            } else if let Some(s) = e.downcast_ref::<String>() {
                s.clone()
            } else {
                "<non-string panic>".to_string()
            };
            if msg == sym::ASSUME_FAILED || msg == sym::OUT_OF_VALUES {
                println!("REPLAY-INVALID harness={} reason={}", name, msg);
                std::process::exit(3);
            }
            println!("REPLAY-VIOLATION harness={} panic={:?}", name, msg);
            std::process::exit(1);
        }
    }
}
