//! Oracles written from the property statements (properties.jsonl), not from rscel's code.
//! Integers are mathematical (i128), doubles are Rust's IEEE-754 `f64` operations.

use crate::kinds::{Short, V};
use core::cmp::Ordering;

#[derive(Clone, Copy, PartialEq, Eq)]
pub enum Op {
    Add,
    Sub,
    Mul,
    Div,
    Rem,
}

/// Expected outcome of an arithmetic operator.
#[derive(Clone, Copy)]
pub enum Exp {
    I(i64),
    U(u64),
    F(f64),
    /// must be an error value
    Err,
    /// exact int result, or an error (the statement allows either reading: a uint operand
    /// above the int range has no lossless widening to int)
    IOrErr(i64),
    /// the statement is silent: any *returned* value is acceptable (totality only)
    Any,
}

fn fit_i(x: Option<i128>) -> Exp {
    match x {
        Some(x) if x >= i64::MIN as i128 && x <= i64::MAX as i128 => Exp::I(x as i64),
        _ => Exp::Err,
    }
}

fn fit_u(x: Option<i128>) -> Exp {
    match x {
        Some(x) if x >= 0 && x <= u64::MAX as i128 => Exp::U(x as u64),
        _ => Exp::Err,
    }
}

/// a op b over the mathematical integers for + and -; None = not handled here.
fn int_math(op: Op, a: i128, b: i128) -> Option<i128> {
    match op {
        Op::Add => Some(a + b),
        Op::Sub => Some(a - b),
        _ => None,
    }
}

/// Truncated division / remainder (sign of the dividend) on the 64-bit primitives. The
/// oracle deliberately avoids 128-bit multipliers and dividers: against rscel's 64-bit ones
/// they make the UNSAT proofs intractable.
fn divrem_i(op: Op, x: i64, y: i64) -> Exp {
    if y == 0 {
        return Exp::Err;
    }
    match op {
        Op::Div => match x.checked_div(y) {
            Some(r) => Exp::I(r),
            None => Exp::Err, // MIN / -1: not representable
        },
        // MIN % -1 is mathematically 0, which is representable; an implementation that
        // reports the overflow of the underlying division is tolerated as well
        _ => match x.checked_rem(y) {
            Some(r) => Exp::I(r),
            None => Exp::IOrErr(0),
        },
    }
}

fn divrem_u(op: Op, x: u64, y: u64) -> Exp {
    if y == 0 {
        return Exp::Err;
    }
    match op {
        Op::Div => Exp::U(x / y),
        _ => Exp::U(x % y),
    }
}

/// int (x) op uint (y) or uint (x) op int (y), result type int, where the uint operand does
/// not fit i64 ("lossy"): exact result computed without wide arithmetic.
fn divrem_lossy(op: Op, x: i128, y: i128) -> Exp {
    if y == 0 {
        return Exp::Err;
    }
    let two63: i128 = 1i128 << 63;
    if y >= two63 {
        // x is an int: |x| <= 2^63 <= y
        if x == -two63 && y == two63 {
            return match op {
                Op::Div => Exp::I(-1),
                _ => Exp::I(0),
            };
        }
        return match op {
            Op::Div => Exp::I(0),
            _ => Exp::I(x as i64),
        };
    }
    // x is a uint >= 2^63, y a non-zero int
    let xu = x as u64;
    let yabs = (y as i64).unsigned_abs();
    let q = xu / yabs;
    let r = xu % yabs; // remainder takes the sign of the dividend (positive)
    match op {
        Op::Div => {
            if y > 0 {
                if q <= i64::MAX as u64 {
                    Exp::I(q as i64)
                } else {
                    Exp::Err
                }
            } else if q <= (i64::MAX as u64) + 1 {
                Exp::I((q as i128).wrapping_neg() as i64)
            } else {
                Exp::Err
            }
        }
        _ => {
            if r <= i64::MAX as u64 {
                Exp::I(r as i64)
            } else {
                Exp::Err
            }
        }
    }
}

fn f_math(op: Op, a: f64, b: f64) -> Exp {
    match op {
        Op::Add => Exp::F(a + b),
        Op::Sub => Exp::F(a - b),
        Op::Mul => Exp::F(a * b),
        Op::Div => Exp::F(a / b),
        // `%` on doubles is not part of CEL; the statement is silent
        Op::Rem => Exp::Any,
    }
}

fn b2i(b: bool) -> i128 {
    if b {
        1
    } else {
        0
    }
}

fn to_f(v: V) -> f64 {
    match v {
        V::I(i) => i as f64,
        V::U(u) => u as f64,
        V::F(f) => f,
        V::B(b) => {
            if b {
                1.0
            } else {
                0.0
            }
        }
        _ => 0.0,
    }
}

/// C03: the operator table for numeric and bool operands.
pub fn arith(op: Op, a: V, b: V) -> Exp {
    match (a, b) {
        (V::I(x), V::I(y)) => {
            if op == Op::Mul {
                match x.checked_mul(y) {
                    Some(r) => Exp::I(r),
                    None => Exp::Err,
                }
            } else if op == Op::Div || op == Op::Rem {
                divrem_i(op, x, y)
            } else {
                fit_i(int_math(op, x as i128, y as i128))
            }
        }
        (V::U(x), V::U(y)) => {
            if op == Op::Mul {
                match x.checked_mul(y) {
                    Some(r) => Exp::U(r),
                    None => Exp::Err,
                }
            } else if op == Op::Div || op == Op::Rem {
                divrem_u(op, x, y)
            } else {
                fit_u(int_math(op, x as i128, y as i128))
            }
        }
        // int with uint gives int; widening never changes the value
        (V::I(x), V::U(y)) => mixed_iu(op, x as i128, y as i128, y > i64::MAX as u64),
        (V::U(x), V::I(y)) => mixed_iu(op, x as i128, y as i128, x > i64::MAX as u64),
        // bool counts as 0/1 and takes the other operand's integer type
        (V::I(x), V::B(y)) => arith(op, V::I(x), V::I(b2i(y) as i64)),
        (V::B(x), V::I(y)) => arith(op, V::I(b2i(x) as i64), V::I(y)),
        (V::U(x), V::B(y)) => arith(op, V::U(x), V::U(b2i(y) as u64)),
        (V::B(x), V::U(y)) => arith(op, V::U(b2i(x) as u64), V::U(y)),
        // anything with double gives the nearest double
        (V::F(_), V::I(_) | V::U(_) | V::B(_) | V::F(_)) | (V::I(_) | V::U(_) | V::B(_), V::F(_)) => {
            f_math(op, to_f(a), to_f(b))
        }
        // bool with bool: "bool counts as 0/1" vs "every other combination is an error" -
        // the statement does not settle it
        (V::B(_), V::B(_)) => Exp::Any,
        // failures propagate, the leftmost one wins
        (V::E, _) | (_, V::E) => Exp::Err,
        // concatenation and time arithmetic are decided under C06 / C16
        (V::S(_), V::S(_)) | (V::Y(_), V::Y(_)) => {
            if op == Op::Add {
                Exp::Any
            } else {
                Exp::Err
            }
        }
        (V::T(..), V::D(..)) | (V::D(..), V::T(..)) | (V::D(..), V::D(..)) => {
            if op == Op::Add || op == Op::Sub {
                Exp::Any
            } else {
                Exp::Err
            }
        }
        (V::T(..), V::T(..)) => {
            if op == Op::Sub {
                Exp::Any
            } else {
                Exp::Err
            }
        }
        // every other operand combination is an error
        _ => Exp::Err,
    }
}

fn mixed_iu(op: Op, x: i128, y: i128, lossy: bool) -> Exp {
    let exact = if op == Op::Mul {
        // |x|,|y| < 2^64: do it on the 64-bit checked primitives where possible
        // result type int: exact iff it fits i64
        let (xi, yi) = (i64::try_from(x), i64::try_from(y));
        match (xi, yi) {
            (Ok(xi), Ok(yi)) => match xi.checked_mul(yi) {
                Some(r) => Exp::I(r),
                None => Exp::Err,
            },
            // a uint operand above i64::MAX: the product fits int only if the other is 0
            // (or -1 with exactly 2^63)
            _ => {
                let (big, small) = if xi.is_err() { (x, y) } else { (y, x) };
                if small == 0 {
                    Exp::I(0)
                } else if small == -1 && big == (1i128 << 63) {
                    Exp::I(i64::MIN)
                } else {
                    Exp::Err
                }
            }
        }
    } else if op == Op::Div || op == Op::Rem {
        if lossy {
            divrem_lossy(op, x, y)
        } else {
            divrem_i(op, x as i64, y as i64)
        }
    } else {
        fit_i(int_math(op, x, y))
    };
    if lossy {
        match exact {
            Exp::I(r) => Exp::IOrErr(r),
            other => other,
        }
    } else {
        exact
    }
}

/// C03: unary minus.
pub fn neg(a: V) -> Exp {
    match a {
        V::I(x) => match x.checked_neg() {
            Some(r) => Exp::I(r),
            None => Exp::Err,
        },
        V::F(f) => Exp::F(-f),
        V::U(_) => Exp::Err,
        V::B(_) => Exp::Any,
        _ => Exp::Err,
    }
}

/// C04: the order the statement describes. `None` = the pair is not comparable (must be an
/// error), `Some(None)` = comparable kinds but unordered (NaN), `Some(Some(o))` = ordered.
#[derive(Clone, Copy)]
pub enum OrdExp {
    /// exactly this ordering
    Is(Ordering),
    /// NaN involved: none of < == > holds; <= and >= are false
    Unordered,
    /// unrelated kinds: every order relation is an error
    Error,
    /// statement silent (number against bool, which the code widens): only consistency
    Unspecified,
}

fn cmp_f(a: f64, b: f64) -> OrdExp {
    match a.partial_cmp(&b) {
        Some(o) => OrdExp::Is(o),
        None => OrdExp::Unordered,
    }
}

pub fn order(a: V, b: V) -> OrdExp {
    match (a, b) {
        (V::I(x), V::I(y)) => OrdExp::Is(x.cmp(&y)),
        (V::U(x), V::U(y)) => OrdExp::Is(x.cmp(&y)),
        (V::I(x), V::U(y)) => OrdExp::Is((x as i128).cmp(&(y as i128))),
        (V::U(x), V::I(y)) => OrdExp::Is((x as i128).cmp(&(y as i128))),
        (V::F(x), V::F(y)) => cmp_f(x, y),
        (V::I(_) | V::U(_), V::F(y)) => cmp_f(to_f(a), y),
        (V::F(x), V::I(_) | V::U(_)) => cmp_f(x, to_f(b)),
        (V::B(x), V::B(y)) => OrdExp::Is(x.cmp(&y)),
        (V::B(_), V::I(_) | V::U(_) | V::F(_)) | (V::I(_) | V::U(_) | V::F(_), V::B(_)) => {
            OrdExp::Unspecified
        }
        (V::S(x), V::S(y)) => OrdExp::Is(x.cmp(&y)),
        (V::Y(x), V::Y(y)) => OrdExp::Is(x.cmp(&y)),
        (V::D(s1, n1), V::D(s2, n2)) => OrdExp::Is((s1, n1).cmp(&(s2, n2))),
        (V::T(s1, n1), V::T(s2, n2)) => OrdExp::Is((s1, n1).cmp(&(s2, n2))),
        // a failing operand makes the comparison fail as well
        _ => OrdExp::Error,
    }
}

/// C04: `==`. `None` = statement silent for this pair (only complement/symmetry asserted).
pub fn equal(a: V, b: V) -> Option<bool> {
    match (a, b) {
        (V::E, _) | (_, V::E) => None,
        (V::N, V::N) => Some(true),
        (V::Ty, V::Ty) => Some(true),
        _ => match order(a, b) {
            OrdExp::Is(o) => Some(o == Ordering::Equal),
            OrdExp::Unordered => Some(false),
            _ => None,
        },
    }
}

/// C05: the one truthiness table. `None` for a failure (not truthy, and it propagates).
pub fn truthy(a: V) -> Option<bool> {
    match a {
        V::I(i) => Some(i != 0),
        V::U(u) => Some(u != 0),
        V::F(f) => Some(f != 0.0),
        V::B(b) => Some(b),
        V::N => Some(false),
        V::S(s) | V::Y(s) => Some(s.len != 0),
        V::D(..) | V::T(..) | V::Ty => Some(true),
        V::E => None,
    }
}

pub fn short_concat(a: Short, b: Short) -> ([u8; 6], usize) {
    let mut out = [0u8; 6];
    let mut n = 0usize;
    let mut i = 0usize;
    while i < a.len as usize {
        out[n] = a.b[i];
        n += 1;
        i += 1;
    }
    i = 0;
    while i < b.len as usize {
        out[n] = b.b[i];
        n += 1;
        i += 1;
    }
    (out, n)
}
