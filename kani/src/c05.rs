//! C05 - value-level clauses: one truthiness; absorption rules of `||` / `&&`.
use crate::kinds::*;
use crate::spec;
use crate::witness;
use rscel::verif_hooks::construct_type;
use rscel::{CelValue, CelValueDyn};

fn is_b(v: &CelValue, b: bool) -> bool {
    matches!(v, CelValue::Bool(x) if *x == b)
}

/// Every place that turns a value into a truth value agrees with the statement's table.
pub fn truthiness<K: Kind>() {
    let a = K::sym();
    let t = spec::truthy(a);
    let x = a.cel();
    let direct = x.is_truthy();
    let not = !a.cel();
    let or = x.or(&CelValue::Bool(false));
    let and = CelValue::Bool(true).and(a.cel());
    match t {
        Some(t) => {
            witness!(t, "truthy operand");
            witness!(!t, "falsy operand");
            assert!(direct == t, "is_truthy disagrees with the truthiness table");
            assert!(is_b(&not, !t), "! disagrees with the truthiness table");
            assert!(is_b(&or, t), "|| disagrees with the truthiness table");
            assert!(is_b(&and, t), "&& disagrees with the truthiness table");
        }
        None => {
            witness!(true, "failing operand");
            assert!(!direct, "a failure is not truthy");
            assert!(not.is_err(), "! of a failure fails");
            assert!(or.is_err(), "failure || false fails");
            assert!(and.is_err(), "true && failure fails");
        }
    }
    core::mem::forget((x, not, or, and));
}

/// `bool(v)` agrees with the same table (strings that spell a boolean literal convert as
/// that literal - the conversion clause of C14 - and are excluded here).
pub fn bool_ctor<K: Kind>() {
    let a = K::sym();
    let r = construct_type("bool", vec![a.cel()]);
    if let V::S(s) = a {
        let lit = s.len == 1 && (s.b[0] == b'0' || s.b[0] == b'1' || s.b[0] == b't' || s.b[0] == b'f');
        if lit {
            let want = s.b[0] == b'1' || s.b[0] == b't';
            witness!(true, "boolean literal spelling");
            assert!(is_b(&r, want), "bool() of a literal spelling converts the literal");
            core::mem::forget(r);
            return;
        }
    }
    match spec::truthy(a) {
        Some(t) => {
            witness!(t, "truthy operand");
            witness!(!t, "falsy operand");
            assert!(is_b(&r, t), "bool() disagrees with the truthiness table");
        }
        None => {}
    }
    core::mem::forget(r);
}

/// Absorption: `a || b`, `a && b` on every ordered kind pair.
pub fn absorb<K1: Kind, K2: Kind>() {
    let a = K1::sym();
    let b = K2::sym();
    let (ta, tb) = (spec::truthy(a), spec::truthy(b));
    let (x, y) = (a.cel(), b.cel());
    let or = x.or(&y);
    let and = a.cel().and(b.cel());
    // ||: true when either side is truthy even if the other fails; otherwise a failing
    // operand makes it fail; otherwise false
    if ta == Some(true) || tb == Some(true) {
        witness!(true, "some side truthy");
        assert!(is_b(&or, true), "|| must be true when either side is truthy");
    } else if ta.is_none() || tb.is_none() {
        witness!(true, "failure not absorbed");
        assert!(or.is_err(), "|| must fail when a side fails and the other is not truthy");
    } else {
        witness!(true, "both falsy");
        assert!(is_b(&or, false), "|| of two falsy values is false");
    }
    // && on evaluated operands: a failing operand makes the result fail, else conjunction
    if ta.is_none() || tb.is_none() {
        assert!(and.is_err(), "&& must fail when an evaluated side fails");
    } else {
        assert!(is_b(&and, ta == Some(true) && tb == Some(true)), "&& must be the conjunction of truthiness");
    }
    core::mem::forget((x, y, or, and));
}
