//! Kani harnesses over rscel's real code (path dependency on /repo/rscel).
//!
//! Every harness is an ordinary `pub fn()`; under `cfg(kani)` it is a `#[kani::proof]`, and in
//! a native build the very same body is run by `bin/replay` on the concrete byte vectors that
//! Kani's concrete playback reported (see `sym`).
#![allow(clippy::all)]
#![allow(dead_code)]

extern crate alloc;
pub mod sym;
#[macro_use]
pub mod mac;
pub mod kinds;
pub mod spec;
pub mod stubs;

pub mod c01;
pub mod c03;
pub mod c04;
pub mod c05;
pub mod c06;
pub mod c10;
pub mod c12;
pub mod c14;
pub mod c15;
pub mod c16;

pub mod gen;
#[cfg(kani)]
pub mod probe;
