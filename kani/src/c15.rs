//! C15 - the math family through the `#[dispatch]`-generated entry points.
use crate::c01::{call_math, Math};
use crate::kinds::*;
use crate::sym::{any, assume};
use crate::witness;
use rscel::verif_hooks::verif_funcs as vf;
use rscel::CelValue;

fn one(f: Math, a: V) -> CelValue {
    call_math(f, CelValue::Null, vec![a.cel()])
}

pub fn abs<K: Kind>() {
    let a = K::sym();
    let r = one(Math::Abs, a);
    let got = classify(&r);
    match a {
        V::I(i) => {
            witness!(i == i64::MIN, "most negative int");
            witness!(i < 0, "negative");
            match i.checked_abs() {
                Some(w) => assert!(matches!(got, R::I(x) if x == w), "abs(int) is the absolute value"),
                None => assert!(matches!(got, R::Err), "abs(i64::MIN) is not representable: error"),
            }
        }
        V::U(u) => assert!(matches!(got, R::U(x) if x == u), "abs(uint) is the identity"),
        V::F(f) => assert!(matches!(got, R::F(x) if same_f64(x, f.abs())), "abs(double) clears the sign"),
        _ => assert!(matches!(got, R::Err), "abs() of a non-number is an error"),
    }
    core::mem::forget(r);
}

pub fn sqrt<K: Kind>() {
    let a = K::sym();
    let r = one(Math::Sqrt, a);
    let got = classify(&r);
    witness!(true, "reached");
    match a {
        V::I(i) => assert!(matches!(got, R::F(x) if same_f64(x, (i as f64).sqrt())), "sqrt(int) is the IEEE square root of the nearest double"),
        V::U(u) => assert!(matches!(got, R::F(x) if same_f64(x, (u as f64).sqrt())), "sqrt(uint) is the IEEE square root of the nearest double"),
        V::F(f) => assert!(matches!(got, R::F(x) if same_f64(x, f.sqrt())), "sqrt(double) is the IEEE square root"),
        _ => assert!(matches!(got, R::Err), "sqrt() of a non-number is an error"),
    }
    core::mem::forget(r);
}

#[derive(Clone, Copy)]
pub enum Rnd {
    Ceil,
    Floor,
    Round,
}

/// ceil/floor/round: integer forms are identities; the double form is the rounded double
/// converted with truncation/saturation; round is half away from zero.
pub fn rounding<K: Kind>(which: Rnd) {
    let a = K::sym();
    let f = match which {
        Rnd::Ceil => Math::Ceil,
        Rnd::Floor => Math::Floor,
        Rnd::Round => Math::Round,
    };
    let r = one(f, a);
    let got = classify(&r);
    match a {
        V::I(i) => assert!(matches!(got, R::I(x) if x == i), "integer form is the identity"),
        V::U(u) => assert!(matches!(got, R::U(x) if x == u), "integer form is the identity"),
        V::F(x) => {
            if !x.is_nan() {
                if let R::I(y) = got {
                    // mathematical characterisation on the range where y is exact
                    if x > -4.0e15 && x < 4.0e15 {
                        let d = (y as f64) - x; // exact: both below 2^53
                        witness!(d != 0.0, "non-integral operand");
                        match which {
                            Rnd::Ceil => assert!(d >= 0.0 && d < 1.0, "ceil(x) is the least integer >= x"),
                            Rnd::Floor => assert!(d <= 0.0 && d > -1.0, "floor(x) is the greatest integer <= x"),
                            Rnd::Round => {
                                assert!(d >= -0.5 && d <= 0.5, "round(x) is a nearest integer");
                                if d == 0.5 {
                                    assert!(x > 0.0, "round half away from zero (positive half)");
                                }
                                if d == -0.5 {
                                    assert!(x < 0.0, "round half away from zero (negative half)");
                                }
                            }
                        }
                    } else {
                        witness!(x > 1.0e19, "saturating range");
                        // |x| >= 4e15 is already integral: conversion truncates/saturates
                        assert!(y == x as i64, "large doubles convert with saturation");
                    }
                } else {
                    assert!(false, "rounding a double yields an int");
                }
            }
        }
        _ => assert!(matches!(got, R::Err), "rounding a non-number is an error"),
    }
    core::mem::forget(r);
}

/// lg / log on integers: floor(log2) / floor(log10) for x > 0, error (not a panic) otherwise
pub fn ilog<K: Kind>(base10: bool) {
    let a = K::sym();
    let r = one(if base10 { Math::Log } else { Math::Lg }, a);
    let got = classify(&r);
    let (pos, mag): (bool, u64) = match a {
        V::I(i) => (i > 0, i as u64),
        V::U(u) => (u > 0, u),
        _ => {
            match a {
                V::F(f) => {
                    let w = if base10 { f.log10() } else { f.log2() };
                    witness!(true, "double form");
                    assert!(matches!(got, R::F(x) if same_f64(x, w)), "double form follows IEEE-754");
                }
                _ => assert!(matches!(got, R::Err), "log of a non-number is an error"),
            }
            core::mem::forget(r);
            return;
        }
    };
    witness!(!pos, "non-positive operand");
    witness!(pos, "positive operand");
    if !pos {
        assert!(matches!(got, R::Err), "log of a non-positive integer is an error, not a panic");
    } else {
        let k: u64 = match got {
            R::I(k) if k >= 0 => k as u64,
            R::U(k) => k,
            _ => {
                assert!(false, "log of a positive integer is an integer value");
                0
            }
        };
        if !base10 {
            // floor(log2(mag)) = k  <=>  2^k <= mag < 2^(k+1)
            assert!(k < 64, "floor(log2) of a 64-bit number is below 64");
            assert!((mag >> k) == 1, "lg(x) is floor(log2 x)");
        } else {
            // floor(log10(mag)) = k  <=>  10^k <= mag < 10^(k+1)
            assert!(k < 20, "floor(log10) of a 64-bit number is below 20");
            let p = 10u64.pow(k as u32); // k <= 19: 10^19 < 2^64
            assert!(p <= mag, "10^log(x) <= x");
            if k < 19 {
                assert!(mag < p * 10, "x < 10^(log(x)+1)");
            }
        }
    }
    core::mem::forget(r);
}

/// pow with integer base: exponent validity for all values (predicates only)
pub fn pow_pred<K1: Kind, K2: Kind>() {
    let a = K1::sym();
    let b = K2::sym();
    let r = vf::pow(CelValue::Null, vec![a.cel(), b.cel()]);
    let got = classify(&r);
    let bad_exp = match b {
        V::I(e) => e < 0 || e > u32::MAX as i64,
        V::U(e) => e > u32::MAX as u64,
        _ => false,
    };
    witness!(bad_exp, "exponent outside 0..=u32::MAX");
    if bad_exp {
        assert!(matches!(got, R::Err), "an integer power with a negative or oversized exponent is an error");
    }
    core::mem::forget(r);
}

/// pow with integer base and exponent 0..=max_exp: exact power or error on overflow
pub fn pow_val<K1: Kind, K2: Kind>(max_exp: u32) {
    let a = K1::sym();
    let e: u8 = any();
    assume((e as u32) <= max_exp);
    let b = match K2::sym() {
        V::I(_) => V::I(e as i64),
        V::U(_) => V::U(e as u64),
        other => other,
    };
    let r = vf::pow(CelValue::Null, vec![a.cel(), b.cel()]);
    let got = classify(&r);
    witness!(e as u32 == max_exp, "largest exponent");
    match a {
        V::I(x) => match x.checked_pow(e as u32) {
            Some(w) => assert!(matches!(got, R::I(y) if y == w), "pow(int, n) is the exact power"),
            None => assert!(matches!(got, R::Err), "pow overflow is an error"),
        },
        V::U(x) => match x.checked_pow(e as u32) {
            Some(w) => assert!(matches!(got, R::U(y) if y == w), "pow(uint, n) is the exact power"),
            None => assert!(matches!(got, R::Err), "pow overflow is an error"),
        },
        _ => {}
    }
    core::mem::forget(r);
}

/// each math built-in with a wrong arity (0 or 2 arguments; 3 for pow) answers with an error
pub fn math_arity(f: Math) {
    let x: i64 = any();
    let r0 = call_math(f, CelValue::Null, vec![]);
    let r2 = call_math(f, CelValue::Null, vec![CelValue::Int(x), CelValue::Int(x)]);
    witness!(true, "reached");
    assert!(r0.is_err(), "math built-in without argument is an error");
    assert!(r2.is_err(), "one-argument math built-in with two arguments is an error");
    core::mem::forget((r0, r2));
}

pub fn pow_arity() {
    let x: i64 = any();
    let r0 = vf::pow(CelValue::Null, vec![]);
    let r1 = vf::pow(CelValue::Null, vec![CelValue::Int(x)]);
    let r3 = vf::pow(CelValue::Null, vec![CelValue::Int(x), CelValue::Int(1), CelValue::Int(1)]);
    witness!(true, "reached");
    assert!(r0.is_err() && r1.is_err() && r3.is_err(), "pow takes exactly two arguments");
    core::mem::forget((r0, r1, r3));
}

/// splitAt(recv, at): error exactly when at is out of range or not on a char boundary,
/// otherwise [prefix, suffix]
pub fn split_at(recv: &'static str) {
    let at: i64 = any();
    let r = vf::split_at(CelValue::String(recv.to_string()), vec![CelValue::Int(at)]);
    let ok = at >= 0 && (at as u64) <= recv.len() as u64 && recv.is_char_boundary(at as usize);
    witness!(ok, "valid offset");
    witness!(at < 0, "negative offset");
    witness!(at > recv.len() as i64, "offset past the end");
    if ok {
        match &r {
            CelValue::List(l) => {
                assert!(l.len() == 2, "splitAt yields two pieces");
                match (&l[0], &l[1]) {
                    (CelValue::String(x), CelValue::String(y)) => {
                        assert!(x.len() == at as usize, "first piece is the prefix of length at");
                        assert!(x.len() + y.len() == recv.len(), "pieces rejoin to the receiver");
                    }
                    _ => assert!(false, "splitAt pieces are strings"),
                }
            }
            _ => assert!(false, "splitAt with a valid offset yields a list"),
        }
    } else {
        assert!(r.is_err(), "splitAt with an out-of-range or non-boundary offset is an error");
    }
    core::mem::forget(r);
}
