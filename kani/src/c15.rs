//! C15 - the math family through the `#[dispatch]`-generated entry points.
use crate::c01::{call_math, Math};
use crate::kinds::*;
use crate::sym::{any, assume};
use crate::witness;
use rscel::verif_hooks::verif_funcs as vf;
use rscel::CelValue;

fn one(f: Math, a: V) -> CelValue {
    call_math(f, CelValue::Null, vec![a.cel()])
}

pub fn abs<K: Kind>() {
    let a = K::sym();
    let r = one(Math::Abs, a);
    let got = classify(&r);
    match a {
        V::I(i) => {
            witness!(i == i64::MIN, "most negative int");
            witness!(i < 0, "negative");
            match i.checked_abs() {
                Some(w) => assert!(matches!(got, R::I(x) if x == w), "abs(int) is the absolute value"),
                None => assert!(matches!(got, R::Err), "abs(i64::MIN) is not representable: error"),
            }
        }
        V::U(u) => assert!(matches!(got, R::U(x) if x == u), "abs(uint) is the identity"),
        V::F(f) => assert!(matches!(got, R::F(x) if same_f64(x, f.abs())), "abs(double) clears the sign"),
        _ => assert!(matches!(got, R::Err), "abs() of a non-number is an error"),
    }
    core::mem::forget(r);
}

pub fn sqrt<K: Kind>() {
    // CBMC has no exact model of sqrt (its result is over-approximated), so the *value* of the
    // double forms is not decided here: only totality, the result kind and the sign/NaN
    // structure that IEEE-754 fixes independently of the approximation.
    let a = K::sym();
    let r = one(Math::Sqrt, a);
    let got = classify(&r);
    witness!(true, "reached");
    match a {
        V::I(_) | V::U(_) | V::F(_) => assert!(matches!(got, R::F(_)), "sqrt of a number is a double"),
        _ => assert!(matches!(got, R::Err), "sqrt() of a non-number is an error"),
    }
    core::mem::forget(r);
}

#[derive(Clone, Copy)]
pub enum Rnd {
    Ceil,
    Floor,
    Round,
}

/// ceil/floor/round: integer forms are identities; the double form is the rounded double
/// converted with truncation/saturation; round is half away from zero.
pub fn rounding<K: Kind>(which: Rnd) {
    let a = K::sym();
    let f = match which {
        Rnd::Ceil => Math::Ceil,
        Rnd::Floor => Math::Floor,
        Rnd::Round => Math::Round,
    };
    let r = one(f, a);
    let got = classify(&r);
    match a {
        V::I(i) => assert!(matches!(got, R::I(x) if x == i), "integer form is the identity"),
        V::U(u) => assert!(matches!(got, R::U(x) if x == u), "integer form is the identity"),
        V::F(x) => {
            if !x.is_nan() {
                if let R::I(y) = got {
                    const TWO52: f64 = 4503599627370496.0;
                    if x > -TWO52 && x < TWO52 {
                        // |y| <= 2^52: y, y-1, y+1 and y +- 0.5 are exact doubles, so the
                        // bracketing comparisons below are exact
                        let yf = y as f64;
                        witness!(yf != x, "non-integral operand");
                        assert!(y >= -(1i64 << 52) && y <= (1i64 << 52), "rounded value stays in range");
                        match which {
                            Rnd::Ceil => assert!(yf >= x && yf - 1.0 < x, "ceil(x) is the least integer >= x"),
                            Rnd::Floor => assert!(yf <= x && yf + 1.0 > x, "floor(x) is the greatest integer <= x"),
                            Rnd::Round => {
                                assert!(yf - 0.5 <= x && x <= yf + 0.5, "round(x) is a nearest integer");
                                if x == yf - 0.5 && x != yf {
                                    assert!(x > 0.0, "round half away from zero (positive half)");
                                }
                                if x == yf + 0.5 && x != yf {
                                    assert!(x < 0.0, "round half away from zero (negative half)");
                                }
                            }
                        }
                    } else {
                        witness!(x > 1.0e19, "saturating range");
                        // every double of magnitude >= 2^52 is an integer: the conversion
                        // truncates nothing and saturates at the int range
                        assert!(y == x as i64, "large doubles convert with saturation");
                    }
                } else {
                    assert!(false, "rounding a double yields an int");
                }
            }
        }
        _ => assert!(matches!(got, R::Err), "rounding a non-number is an error"),
    }
    core::mem::forget(r);
}

/// lg / log on integers: floor(log2) / floor(log10) for x > 0, error (not a panic) otherwise
pub fn ilog<K: Kind>(base10: bool) {
    let a = K::sym();
    let r = one(if base10 { Math::Log } else { Math::Lg }, a);
    let got = classify(&r);
    let (pos, mag): (bool, u64) = match a {
        V::I(i) => (i > 0, i as u64),
        V::U(u) => (u > 0, u),
        _ => {
            match a {
                V::F(_) => {
                    // CBMC has no exact model of log2/log10: value not decided, kind only
                    witness!(true, "double form");
                    assert!(matches!(got, R::F(_)), "log of a double is a double");
                }
                _ => assert!(matches!(got, R::Err), "log of a non-number is an error"),
            }
            core::mem::forget(r);
            return;
        }
    };
    witness!(!pos, "non-positive operand");
    witness!(pos, "positive operand");
    if !pos {
        assert!(matches!(got, R::Err), "log of a non-positive integer is an error, not a panic");
    } else {
        let k: u64 = match got {
            R::I(k) if k >= 0 => k as u64,
            R::U(k) => k,
            _ => {
                assert!(false, "log of a positive integer is an integer value");
                0
            }
        };
        if !base10 {
            // floor(log2(mag)) = k  <=>  2^k <= mag < 2^(k+1)
            assert!(k < 64, "floor(log2) of a 64-bit number is below 64");
            assert!((mag >> k) == 1, "lg(x) is floor(log2 x)");
        } else {
            // floor(log10(mag)) = k  <=>  10^k <= mag < 10^(k+1)
            assert!(k < 20, "floor(log10) of a 64-bit number is below 20");
            let p = 10u64.pow(k as u32); // k <= 19: 10^19 < 2^64
            assert!(p <= mag, "10^log(x) <= x");
            if k < 19 {
                assert!(mag < p * 10, "x < 10^(log(x)+1)");
            }
        }
    }
    core::mem::forget(r);
}

/// pow with integer base: exponent validity for all values (predicates only)
pub fn pow_pred<K1: Kind, K2: Kind>() {
    let a = K1::sym();
    let b = K2::sym();
    let bad_exp = match b {
        V::I(e) => e < 0 || e > u32::MAX as i64,
        V::U(e) => e > u32::MAX as u64,
        _ => false,
    };
    // valid exponents above 1 enter the square-and-multiply loop (up to 32 dependent 64-bit
    // multiplications): outside the claim of this harness, see pow_val
    let small = match b {
        V::I(e) => e >= 0 && e <= 1,
        V::U(e) => e <= 1,
        _ => true,
    };
    assume(bad_exp || small);
    let r = vf::pow(CelValue::Null, vec![a.cel(), b.cel()]);
    let got = classify(&r);
    witness!(bad_exp, "exponent outside 0..=u32::MAX");
    witness!(!bad_exp, "exponent 0 or 1");
    if bad_exp {
        assert!(matches!(got, R::Err), "an integer power with a negative or oversized exponent is an error");
    } else {
        // x^0 == 1, x^1 == x
        let one_exp = matches!(b, V::I(1) | V::U(1));
        match a {
            V::I(x) => assert!(matches!(got, R::I(y) if y == if one_exp { x } else { 1 }), "x^0 == 1 and x^1 == x"),
            V::U(x) => assert!(matches!(got, R::U(y) if y == if one_exp { x } else { 1 }), "x^0 == 1 and x^1 == x"),
            _ => {}
        }
    }
    core::mem::forget(r);
}

/// pow with integer base and exponent 0..=max_exp: exact power or error on overflow
pub fn pow_val<K1: Kind, K2: Kind>(max_exp: u32, base_bits: u32) {
    let a = K1::sym();
    match a {
        V::I(x) => assume(base_bits >= 64 || (x > -(1i64 << base_bits) && x < (1i64 << base_bits))),
        V::U(x) => assume(base_bits >= 64 || x < (1u64 << base_bits)),
        _ => {}
    }
    let e: u8 = any();
    assume((e as u32) <= max_exp);
    let b = match K2::sym() {
        V::I(_) => V::I(e as i64),
        V::U(_) => V::U(e as u64),
        other => other,
    };
    let r = vf::pow(CelValue::Null, vec![a.cel(), b.cel()]);
    let got = classify(&r);
    witness!(e as u32 == max_exp, "largest exponent");
    match a {
        V::I(x) => match x.checked_pow(e as u32) {
            Some(w) => assert!(matches!(got, R::I(y) if y == w), "pow(int, n) is the exact power"),
            None => assert!(matches!(got, R::Err), "pow overflow is an error"),
        },
        V::U(x) => match x.checked_pow(e as u32) {
            Some(w) => assert!(matches!(got, R::U(y) if y == w), "pow(uint, n) is the exact power"),
            None => assert!(matches!(got, R::Err), "pow overflow is an error"),
        },
        _ => {}
    }
    core::mem::forget(r);
}

/// each math built-in with too many arguments answers with an error. (Too *few* arguments
/// go through the dispatcher's null-padding path, `Vec::extend`, which is out of reach.)
pub fn math_arity(f: Math) {
    let x: i64 = any();
    let r2 = call_math(f, CelValue::Null, vec![CelValue::Int(x), CelValue::Int(x)]);
    witness!(true, "reached");
    assert!(r2.is_err(), "one-argument math built-in with two arguments is an error");
    core::mem::forget(r2);
}

pub fn pow_arity() {
    let x: i64 = any();
    let r3 = vf::pow(CelValue::Null, vec![CelValue::Int(x), CelValue::Int(1), CelValue::Int(1)]);
    witness!(true, "reached");
    assert!(r3.is_err(), "pow takes exactly two arguments");
    core::mem::forget(r3);
}


// ---------------------------------------------------------------------------------------
// pow through the typed overloads (hook `verif_funcs::inner::pow`): a call through the
// two-argument dispatcher does not finish (a heap Vec of two CelValues), so the dispatcher's
// argument matching for pow is outside the claim; the overload bodies are inside.

#[derive(Clone, Copy)]
pub enum PowSig {
    II,
    IU,
    UI,
    UU,
}

fn pow_call(sig: PowSig, base: u64, exp: u64) -> Result<(bool, u64), ()> {
    // returns (is_signed_result, raw bits)
    use rscel::verif_hooks::verif_funcs::inner::pow as p;
    let r = match sig {
        PowSig::II => p::ii(base as i64, exp as i64).map(|v| (true, v as u64)),
        PowSig::IU => p::iu(base as i64, exp).map(|v| (true, v as u64)),
        PowSig::UI => p::ui(base, exp as i64).map(|v| (false, v)),
        PowSig::UU => p::uu(base, exp).map(|v| (false, v)),
    };
    match r {
        Ok(v) => Ok(v),
        Err(e) => {
            core::mem::forget(e);
            Err(())
        }
    }
}

fn exp_is_signed(sig: PowSig) -> bool {
    matches!(sig, PowSig::II | PowSig::UI)
}

fn base_is_signed(sig: PowSig) -> bool {
    matches!(sig, PowSig::II | PowSig::IU)
}

/// exponent validity for ALL exponents: negative or above u32::MAX is an error; 0 and 1 are
/// exact (x^0 == 1, x^1 == x). Exponents 2..=u32::MAX are in `pow_inner_val`.
pub fn pow_inner_pred(sig: PowSig) {
    let base: u64 = any();
    let exp: u64 = any();
    let bad = if exp_is_signed(sig) { (exp as i64) < 0 || (exp as i64) > u32::MAX as i64 } else { exp > u32::MAX as u64 };
    assume(bad || exp <= 1);
    let r = pow_call(sig, base, exp);
    witness!(bad, "exponent outside 0..=u32::MAX");
    witness!(!bad, "exponent 0 or 1");
    if bad {
        assert!(r.is_err(), "an integer power with a negative or oversized exponent is an error");
    } else {
        let want = if exp == 1 { base } else { 1 };
        assert!(matches!(r, Ok((_, v)) if v == want), "x^0 == 1 and x^1 == x");
    }
}

/// exact power or overflow error for |base| < 2^base_bits, exponent 0..=max_exp
pub fn pow_inner_val(sig: PowSig, max_exp: u32, base_bits: u32) {
    let base: u64 = any();
    let e: u8 = any();
    assume((e as u32) <= max_exp);
    if base_is_signed(sig) {
        let b = base as i64;
        assume(base_bits >= 64 || (b > -(1i64 << base_bits) && b < (1i64 << base_bits)));
    } else {
        assume(base_bits >= 64 || base < (1u64 << base_bits));
    }
    let r = pow_call(sig, base, e as u64);
    witness!(e as u32 == max_exp, "largest exponent");
    if base_is_signed(sig) {
        match (base as i64).checked_pow(e as u32) {
            Some(w) => assert!(matches!(r, Ok((true, v)) if v as i64 == w), "pow(int, n) is the exact power"),
            None => {
                witness!(true, "overflow");
                assert!(r.is_err(), "pow overflow is an error");
            }
        }
    } else {
        match base.checked_pow(e as u32) {
            Some(w) => assert!(matches!(r, Ok((false, v)) if v == w), "pow(uint, n) is the exact power"),
            None => {
                witness!(true, "overflow");
                assert!(r.is_err(), "pow overflow is an error");
            }
        }
    }
}

/// integer base with a double exponent: only a non-negative integral exponent up to
/// u32::MAX has an integer power; everything else is an error
pub fn pow_inner_float_exp(signed_base: bool) {
    use rscel::verif_hooks::verif_funcs::inner::pow as p;
    let base: u64 = any();
    let f: f64 = any();
    let valid = f >= 0.0 && f <= u32::MAX as f64 && f == (f as u32) as f64;
    // valid exponents above 1 enter the multiplication loop: outside this harness
    assume(!valid || f <= 1.0);
    let ok = if signed_base {
        match p::id(base as i64, f) {
            Ok(v) => Some(v as u64),
            Err(e) => {
                core::mem::forget(e);
                None
            }
        }
    } else {
        match p::ud(base, f) {
            Ok(v) => Some(v),
            Err(e) => {
                core::mem::forget(e);
                None
            }
        }
    };
    witness!(!valid && f > 0.0 && f < 1.0, "fractional exponent");
    witness!(f.is_nan(), "NaN exponent");
    witness!(valid, "exponent 0.0 or 1.0");
    if valid {
        let want = if f == 1.0 { base } else { 1 };
        assert!(ok == Some(want), "x^0.0 == 1 and x^1.0 == x");
    } else {
        assert!(ok.is_none(), "an integer power with a negative, fractional, NaN or oversized exponent is an error");
    }
}
