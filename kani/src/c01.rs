//! C01 - totality of the value-level kernels: every operator entry point and every scalar
//! built-in returns (a value or an error value); no panic, overflow trap, OOB or abort.
//! The assertion is Kani's default check set; the harness bodies only drive the calls.
use crate::kinds::*;
use crate::sym::{any, assume};
use crate::witness;
use rscel::verif_hooks::{construct_type, verif_funcs as vf, Interpreter};
use rscel::{CelValue, CelValueDyn};

fn done(v: CelValue) {
    core::mem::forget(v);
}

/// Every binary operator on (K1, K2).
pub fn binops<K1: Kind, K2: Kind>() {
    let a = K1::sym();
    let b = K2::sym();
    done(a.cel() + b.cel());
    done(a.cel() - b.cel());
    done(a.cel() * b.cel());
    done(a.cel() / b.cel());
    done(a.cel() % b.cel());
    witness!(true, "arithmetic returned");
    done(a.cel().lt(b.cel()));
    done(a.cel().le(b.cel()));
    done(a.cel().gt(b.cel()));
    done(a.cel().ge(b.cel()));
    let (x, y) = (a.cel(), b.cel());
    done(CelValueDyn::eq(&x, &y));
    done(x.neq(y));
    witness!(true, "relations returned");
    let (x, y) = (a.cel(), b.cel());
    done(x.or(&y));
    done(x.and(y));
    done(a.cel().in_(b.cel()));
    done(a.cel().index(b.cel()));
    witness!(true, "all binary operators returned");
}

pub fn unops<K: Kind>() {
    let a = K::sym();
    done(-a.cel());
    done(!a.cel());
    let x = a.cel();
    let _ = x.is_truthy();
    done(x.as_type());
    done(x);
    witness!(true, "all unary operators returned");
}

#[derive(Clone, Copy)]
pub enum Math {
    Abs,
    Sqrt,
    Log,
    Lg,
    Ceil,
    Floor,
    Round,
}

pub fn call_math(f: Math, this: CelValue, args: Vec<CelValue>) -> CelValue {
    match f {
        Math::Abs => vf::abs(this, args),
        Math::Sqrt => vf::sqrt(this, args),
        Math::Log => vf::log(this, args),
        Math::Lg => vf::lg(this, args),
        Math::Ceil => vf::ceil(this, args),
        Math::Floor => vf::floor(this, args),
        Math::Round => vf::round(this, args),
    }
}

/// one-argument math built-in on kind K
pub fn math1<K: Kind>(f: Math) {
    let a = K::sym();
    let r = call_math(f, CelValue::Null, vec![a.cel()]);
    witness!(true, "built-in returned");
    done(r);
}

pub fn pow2<K1: Kind, K2: Kind>() {
    let a = K1::sym();
    let b = K2::sym();
    // exponents that enter the square-and-multiply loop more than twice are outside this
    // harness (up to 32 dependent 64-bit multiplications): bad exponents and 0..=3 are inside
    match b {
        V::I(e) => assume(e <= 3 || e > u32::MAX as i64),
        V::U(e) => assume(e <= 3 || e > u32::MAX as u64),
        _ => {}
    }
    let r = vf::pow(CelValue::Null, vec![a.cel(), b.cel()]);
    witness!(true, "pow returned");
    done(r);
}

/// type constructor `name` on kind K
pub fn construct<K: Kind>(name: &'static str) {
    let a = K::sym();
    let r = construct_type(name, vec![a.cel()]);
    witness!(true, "constructor returned");
    done(r);
}

pub fn jump_total() {
    let pc: usize = any();
    let dist: i32 = any();
    let len: usize = any();
    let r = Interpreter::verif_checked_jump_target(pc, dist, len);
    witness!(r.is_ok(), "jump accepted");
    witness!(r.is_err(), "jump rejected");
    core::mem::forget(r);
}

pub fn size_total<K: Kind>() {
    let a = K::sym();
    done(vf::size(a.cel(), vec![CelValue::Null]));
    done(vf::size(CelValue::Null, vec![a.cel()]));
    witness!(true, "size returned");
}

