//! C16 - time arithmetic range errors, duration algebra, duration accessors.
use crate::sym::{any, assume};
use crate::witness;
use chrono::{DateTime, Duration};
use rscel::verif_hooks::verif_funcs as vf;
use rscel::CelValue;

const NS: i128 = 1_000_000_000;

fn dur_total(s: i64, n: u32) -> i128 {
    (s as i128) * NS + n as i128
}

/// normalised (secs, nanos) of a total nanosecond count given as secs + carry parts
fn norm(secs: i128, nanos: i64) -> (i128, u32) {
    // nanos in (-2e9, 2e9)
    let mut s = secs;
    let mut n = nanos;
    if n < 0 {
        n += 1_000_000_000;
        s -= 1;
    }
    if n >= 1_000_000_000 {
        n -= 1_000_000_000;
        s += 1;
    }
    (s, n as u32)
}

fn mk_dur(s: i128, n: u32) -> Option<Duration> {
    if s < i64::MIN as i128 || s > i64::MAX as i128 {
        None
    } else {
        Duration::new(s as i64, n)
    }
}

fn mk_ts(s: i128, n: u32) -> Option<DateTime<chrono::Utc>> {
    if s < i64::MIN as i128 || s > i64::MAX as i128 {
        None
    } else {
        DateTime::from_timestamp(s as i64, n)
    }
}

#[derive(Clone, Copy)]
pub enum Shape {
    TplusD,
    DplusT,
    TminusD,
    TminusT,
    DplusD,
    DminusD,
}

fn sym_ts(with_nanos: bool) -> (i64, u32) {
    let s: i64 = any();
    let n: u32 = if with_nanos { any() } else { 0 };
    assume(n < 1_000_000_000);
    assume(DateTime::from_timestamp(s, n).is_some());
    (s, n)
}

fn sym_dur() -> (i64, u32) {
    let s: i64 = any();
    let n: u32 = any();
    assume(Duration::new(s, n).is_some());
    (s, n)
}

/// The six arithmetic shapes: never a panic; a result outside the representable range is an
/// error; a representable result is the exact instant/duration.
pub fn arith(shape: Shape, with_nanos: bool) {
    match shape {
        Shape::TplusD | Shape::DplusT | Shape::TminusD => {
            let (ts, tn) = sym_ts(with_nanos);
            let (ds, dn) = sym_dur();
            let t = CelValue::TimeStamp(DateTime::from_timestamp(ts, tn).unwrap());
            let d = CelValue::Duration(Duration::new(ds, dn).unwrap());
            let (r, want) = match shape {
                Shape::TplusD => (t + d, norm(ts as i128 + ds as i128, tn as i64 + dn as i64)),
                Shape::DplusT => (d + t, norm(ts as i128 + ds as i128, tn as i64 + dn as i64)),
                _ => (t - d, norm(ts as i128 - ds as i128, tn as i64 - dn as i64)),
            };
            let w = mk_ts(want.0, want.1);
            witness!(w.is_none(), "result outside the representable range");
            witness!(w.is_some(), "representable result");
            match (&r, w) {
                (CelValue::TimeStamp(g), Some(w)) => assert!(*g == w, "timestamp arithmetic is exact"),
                (CelValue::Err(_), None) => {}
                (_, None) => assert!(false, "a result outside the representable range must be an error"),
                _ => assert!(false, "a representable result must be a timestamp"),
            }
            core::mem::forget(r);
        }
        Shape::TminusT => {
            let (s1, n1) = sym_ts(with_nanos);
            let (s2, n2) = sym_ts(with_nanos);
            let a = CelValue::TimeStamp(DateTime::from_timestamp(s1, n1).unwrap());
            let b = CelValue::TimeStamp(DateTime::from_timestamp(s2, n2).unwrap());
            let r = a - b;
            let want = norm(s1 as i128 - s2 as i128, n1 as i64 - n2 as i64);
            let w = mk_dur(want.0, want.1);
            witness!(w.is_some(), "representable result");
            match (&r, w) {
                (CelValue::Duration(g), Some(w)) => assert!(*g == w, "timestamp difference is exact"),
                (CelValue::Err(_), None) => {}
                (_, None) => assert!(false, "a difference outside the representable range must be an error"),
                _ => assert!(false, "a representable difference must be a duration"),
            }
            core::mem::forget(r);
        }
        Shape::DplusD | Shape::DminusD => {
            let (s1, n1) = sym_dur();
            let (s2, n2) = sym_dur();
            let a = CelValue::Duration(Duration::new(s1, n1).unwrap());
            let b = CelValue::Duration(Duration::new(s2, n2).unwrap());
            let (r, want) = match shape {
                Shape::DplusD => (a + b, norm(s1 as i128 + s2 as i128, n1 as i64 + n2 as i64)),
                _ => (a - b, norm(s1 as i128 - s2 as i128, n1 as i64 - n2 as i64)),
            };
            let w = mk_dur(want.0, want.1);
            witness!(w.is_none(), "result outside the representable range");
            witness!(w.is_some(), "representable result");
            match (&r, w) {
                (CelValue::Duration(g), Some(w)) => assert!(*g == w, "duration arithmetic is exact"),
                (CelValue::Err(_), None) => {}
                (_, None) => assert!(false, "a result outside the representable range must be an error"),
                _ => assert!(false, "a representable result must be a duration"),
            }
            core::mem::forget(r);
        }
    }
}

/// d1 + d2 - d2 == d1 whenever the intermediate is representable
pub fn dur_roundtrip() {
    let (s1, n1) = sym_dur();
    let (s2, n2) = sym_dur();
    let d1 = Duration::new(s1, n1).unwrap();
    let d2 = Duration::new(s2, n2).unwrap();
    let sum = CelValue::Duration(d1) + CelValue::Duration(d2);
    if sum.is_err() {
        witness!(true, "intermediate not representable");
        core::mem::forget(sum);
        return;
    }
    let back = sum - CelValue::Duration(d2);
    witness!(true, "round trip");
    assert!(matches!(&back, CelValue::Duration(g) if *g == d1), "d1 + d2 - d2 == d1");
    core::mem::forget(back);
}

/// (t + d) - d == t and (t1 - t2) + t2 == t1 whenever the intermediates are representable
pub fn ts_roundtrip(with_nanos: bool) {
    let (ts, tn) = sym_ts(with_nanos);
    let (ds, dn) = sym_dur();
    let t = DateTime::from_timestamp(ts, tn).unwrap();
    let d = Duration::new(ds, dn).unwrap();
    let sum = CelValue::TimeStamp(t) + CelValue::Duration(d);
    if sum.is_err() {
        witness!(true, "intermediate not representable");
        core::mem::forget(sum);
        return;
    }
    let back = sum - CelValue::Duration(d);
    witness!(true, "round trip");
    assert!(matches!(&back, CelValue::TimeStamp(g) if *g == t), "(t + d) - d == t");
    core::mem::forget(back);
}

pub fn ts_diff_roundtrip(with_nanos: bool) {
    let (s1, n1) = sym_ts(with_nanos);
    let (s2, n2) = sym_ts(with_nanos);
    let t1 = DateTime::from_timestamp(s1, n1).unwrap();
    let t2 = DateTime::from_timestamp(s2, n2).unwrap();
    let diff = CelValue::TimeStamp(t1) - CelValue::TimeStamp(t2);
    if diff.is_err() {
        core::mem::forget(diff);
        return;
    }
    let back = diff + CelValue::TimeStamp(t2);
    witness!(true, "round trip");
    assert!(matches!(&back, CelValue::TimeStamp(g) if *g == t1), "(t1 - t2) + t2 == t1");
    core::mem::forget(back);
}

/// duration accessors: total whole hours/minutes/seconds (toward zero) and the sub-second
/// millisecond part, characterised by bracketing (no divider in the oracle)
pub fn dur_accessors() {
    let (s, n) = sym_dur();
    let total = dur_total(s, n); // nanoseconds, exact
    let d = Duration::new(s, n).unwrap();
    let h = vf::get_hours(CelValue::Duration(d), vec![CelValue::Null]);
    let m = vf::get_minutes(CelValue::Duration(d), vec![CelValue::Null]);
    let sec = vf::get_seconds(CelValue::Duration(d), vec![CelValue::Null]);
    let ms = vf::get_milliseconds(CelValue::Duration(d), vec![CelValue::Null]);
    witness!(total < 0 && n != 0, "negative duration with a fraction");
    witness!(total > 0, "positive duration");
    let whole = |v: &CelValue, unit: i128, what: &'static str| match v {
        CelValue::Int(q) => {
            let q = *q as i128;
            // q = trunc(total / unit)  <=>  |total - q*unit| < unit and same sign (or zero)
            let rem = total - q * unit;
            if total >= 0 {
                assert!(rem >= 0 && rem < unit, "{}", what);
            } else {
                assert!(rem <= 0 && rem > -unit, "{}", what);
            }
        }
        _ => assert!(false, "duration accessor returns an int"),
    };
    whole(&h, 3600 * NS, "getHours is the total whole hours");
    whole(&m, 60 * NS, "getMinutes is the total whole minutes");
    whole(&sec, NS, "getSeconds is the total whole seconds");
    match (&ms, &sec) {
        (CelValue::Int(ms), CelValue::Int(sec)) => {
            // sub-second part: total - sec*1e9 nanoseconds, in whole milliseconds toward zero
            let sub = total - (*sec as i128) * NS;
            let rem = sub - (*ms as i128) * 1_000_000;
            if sub >= 0 {
                assert!(rem >= 0 && rem < 1_000_000, "getMilliseconds is the sub-second millisecond part");
            } else {
                assert!(rem <= 0 && rem > -1_000_000, "getMilliseconds is the sub-second millisecond part");
            }
        }
        _ => assert!(false, "duration accessor returns an int"),
    }
    core::mem::forget((h, m, sec, ms));
}

/// ordering of durations / timestamps is chronological (through the public lt)
pub fn dur_order() {
    let (s1, n1) = sym_dur();
    let (s2, n2) = sym_dur();
    let a = CelValue::Duration(Duration::new(s1, n1).unwrap());
    let b = CelValue::Duration(Duration::new(s2, n2).unwrap());
    let r = a.lt(b);
    let want = dur_total(s1, n1) < dur_total(s2, n2);
    witness!(want, "earlier");
    assert!(matches!(r, CelValue::Bool(x) if x == want), "duration order is the order of the lengths");
    core::mem::forget(r);
}

pub fn ts_order(with_nanos: bool) {
    let (s1, n1) = sym_ts(with_nanos);
    let (s2, n2) = sym_ts(with_nanos);
    let a = CelValue::TimeStamp(DateTime::from_timestamp(s1, n1).unwrap());
    let b = CelValue::TimeStamp(DateTime::from_timestamp(s2, n2).unwrap());
    let r = a.lt(b);
    let want = (s1, n1) < (s2, n2);
    witness!(want, "earlier");
    assert!(matches!(r, CelValue::Bool(x) if x == want), "timestamp order is chronological");
    core::mem::forget(r);
}
