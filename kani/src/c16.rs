//! C16 - time arithmetic range errors, duration algebra, duration accessors.
use crate::sym::{any, assume};
use crate::witness;
use chrono::{DateTime, Duration};
use rscel::verif_hooks::verif_funcs as vf;
use rscel::CelValue;

/// normalised (secs, nanos) of a total nanosecond count given as secs + carry parts
fn norm(secs: i128, nanos: i64) -> (i128, u32) {
    // nanos in (-2e9, 2e9)
    let mut s = secs;
    let mut n = nanos;
    if n < 0 {
        n += 1_000_000_000;
        s -= 1;
    }
    if n >= 1_000_000_000 {
        n -= 1_000_000_000;
        s += 1;
    }
    (s, n as u32)
}

fn mk_dur(s: i128, n: u32) -> Option<Duration> {
    if s < i64::MIN as i128 || s > i64::MAX as i128 {
        None
    } else {
        Duration::new(s as i64, n)
    }
}

fn mk_ts(s: i128, n: u32) -> Option<DateTime<chrono::Utc>> {
    if s < i64::MIN as i128 || s > i64::MAX as i128 {
        None
    } else {
        DateTime::from_timestamp(s as i64, n)
    }
}

/// chrono's representable range for DateTime<Utc>, in epoch seconds (checked by harness
/// `c16_range_constants`: from_timestamp(s, 0) is Some exactly inside these bounds)
pub const MIN_TS: i128 = -8334601228800;
pub const MAX_TS: i128 = 8210266876799;

/// half-width of a timestamp window, in seconds (about +-36 hours)
pub const WIN: i64 = 1 << 17;

#[derive(Clone, Copy)]
pub enum Shape {
    TplusD,
    DplusT,
    TminusD,
    TminusT,
    DplusD,
    DminusD,
}

/// A timestamp in the window `base +- WIN` seconds with arbitrary nanoseconds. Full-range
/// symbolic instants do not finish (seconds -> civil date -> seconds inside one query), so
/// instants are explored window by window around base instants chosen at the interesting
/// places of the calendar (DESIGN.md 3/C16 lists them).
fn win_ts(base: i64) -> (i64, u32) {
    let d: i64 = any();
    let n: u32 = any();
    assume(d > -WIN && d < WIN && n < 1_000_000_000);
    let s = base + d;
    assume(DateTime::from_timestamp(s, n).is_some());
    (s, n)
}

fn sym_dur() -> (i64, u32) {
    let s: i64 = any();
    let n: u32 = any();
    assume(Duration::new(s, n).is_some());
    (s, n)
}

fn win_dur() -> (i64, u32) {
    let s: i64 = any();
    let n: u32 = any();
    assume(s > -WIN && s < WIN && n < 1_000_000_000);
    (s, n)
}

pub fn range_constants() {
    let s: i64 = any();
    let ok = DateTime::from_timestamp(s, 0).is_some();
    witness!(ok, "representable");
    witness!(!ok, "not representable");
    assert!(ok == ((s as i128) >= MIN_TS && (s as i128) <= MAX_TS), "range constants match chrono");
}

fn in_range(secs: i128) -> bool {
    secs >= MIN_TS && secs <= MAX_TS
}

/// t (window) +- d (ANY duration): a timestamp exactly when the exact result is inside the
/// representable range, an error otherwise, never a panic. (The value is compared in
/// `ts_arith_value`.)
pub fn ts_arith_range(shape: Shape, base: i64) {
    let (ts, tn) = win_ts(base);
    let (ds, dn) = sym_dur();
    let t = CelValue::TimeStamp(DateTime::from_timestamp(ts, tn).unwrap());
    let d = CelValue::Duration(Duration::new(ds, dn).unwrap());
    let (r, want) = match shape {
        Shape::TplusD => (t + d, norm(ts as i128 + ds as i128, tn as i64 + dn as i64)),
        Shape::DplusT => (d + t, norm(ts as i128 + ds as i128, tn as i64 + dn as i64)),
        _ => (t - d, norm(ts as i128 - ds as i128, tn as i64 - dn as i64)),
    };
    let fits = in_range(want.0);
    witness!(fits, "representable result");
    witness!(!fits, "result outside the representable range");
    match &r {
        CelValue::TimeStamp(_) => assert!(fits, "a result outside the representable range must be an error"),
        CelValue::Err(_) => assert!(!fits, "a representable result must not be rejected"),
        _ => assert!(false, "timestamp +- duration is a timestamp or an error"),
    }
    core::mem::forget(r);
}

/// t (window) +- d (|d| < WIN): exact instant
pub fn ts_arith_value(shape: Shape, base: i64) {
    let (ts, tn) = win_ts(base);
    let (ds, dn) = win_dur();
    let t = CelValue::TimeStamp(DateTime::from_timestamp(ts, tn).unwrap());
    let d = CelValue::Duration(Duration::new(ds, dn).unwrap());
    let (r, want) = match shape {
        Shape::TplusD => (t + d, norm(ts as i128 + ds as i128, tn as i64 + dn as i64)),
        Shape::DplusT => (d + t, norm(ts as i128 + ds as i128, tn as i64 + dn as i64)),
        _ => (t - d, norm(ts as i128 - ds as i128, tn as i64 - dn as i64)),
    };
    let fits = in_range(want.0);
    witness!(fits && want.1 != tn, "representable result with a nanosecond carry or borrow");
    match &r {
        CelValue::TimeStamp(g) => {
            assert!(fits, "a result outside the representable range must be an error");
            assert!(g.timestamp() as i128 == want.0, "timestamp arithmetic is exact (seconds)");
            assert!(g.timestamp_subsec_nanos() == want.1, "timestamp arithmetic is exact (nanoseconds)");
        }
        CelValue::Err(_) => assert!(!fits, "a representable result must not be rejected"),
        _ => assert!(false, "timestamp +- duration is a timestamp or an error"),
    }
    core::mem::forget(r);
}

/// t1 (window 1) - t2 (window 2): the exact duration between them
pub fn ts_diff(base1: i64, base2: i64) {
    let (s1, n1) = win_ts(base1);
    let (s2, n2) = win_ts(base2);
    let a = CelValue::TimeStamp(DateTime::from_timestamp(s1, n1).unwrap());
    let b = CelValue::TimeStamp(DateTime::from_timestamp(s2, n2).unwrap());
    let r = a - b;
    let want = norm(s1 as i128 - s2 as i128, n1 as i64 - n2 as i64);
    let w = mk_dur(want.0, want.1);
    witness!(n1 < n2, "nanosecond borrow");
    match (&r, w) {
        (CelValue::Duration(g), Some(w)) => assert!(*g == w, "timestamp difference is exact"),
        (CelValue::Err(_), None) => {}
        (_, None) => assert!(false, "a difference outside the representable range must be an error"),
        _ => assert!(false, "a representable difference must be a duration"),
    }
    core::mem::forget(r);
}

/// d1 +- d2, all durations: exact or error
pub fn dur_arith(shape: Shape) {
    let (s1, n1) = sym_dur();
    let (s2, n2) = sym_dur();
    let a = CelValue::Duration(Duration::new(s1, n1).unwrap());
    let b = CelValue::Duration(Duration::new(s2, n2).unwrap());
    let (r, want) = match shape {
        Shape::DplusD => (a + b, norm(s1 as i128 + s2 as i128, n1 as i64 + n2 as i64)),
        _ => (a - b, norm(s1 as i128 - s2 as i128, n1 as i64 - n2 as i64)),
    };
    let w = mk_dur(want.0, want.1);
    witness!(w.is_none(), "result outside the representable range");
    witness!(w.is_some(), "representable result");
    match (&r, w) {
        (CelValue::Duration(g), Some(w)) => assert!(*g == w, "duration arithmetic is exact"),
        (CelValue::Err(_), None) => {}
        (_, None) => assert!(false, "a result outside the representable range must be an error"),
        _ => assert!(false, "a representable result must be a duration"),
    }
    core::mem::forget(r);
}

/// d1 + d2 - d2 == d1 whenever the intermediate is representable
pub fn dur_roundtrip() {
    let (s1, n1) = sym_dur();
    let (s2, n2) = sym_dur();
    let d1 = Duration::new(s1, n1).unwrap();
    let d2 = Duration::new(s2, n2).unwrap();
    let sum = CelValue::Duration(d1) + CelValue::Duration(d2);
    // rebuild the intermediate with a concrete kind (a "duration or error" value would drag
    // every variant's clone/drop glue into the query)
    let mid = match &sum {
        CelValue::Duration(m) => *m,
        _ => {
            witness!(true, "intermediate not representable");
            core::mem::forget(sum);
            return;
        }
    };
    core::mem::forget(sum);
    let back = CelValue::Duration(mid) - CelValue::Duration(d2);
    witness!(true, "round trip");
    assert!(matches!(&back, CelValue::Duration(g) if *g == d1), "d1 + d2 - d2 == d1");
    core::mem::forget(back);
}

/// (t + d) - d == t, t in a window, |d| < WIN
pub fn ts_roundtrip(base: i64) {
    let (ts, tn) = win_ts(base);
    let (ds, dn) = win_dur();
    let t = DateTime::from_timestamp(ts, tn).unwrap();
    let d = Duration::new(ds, dn).unwrap();
    let sum = CelValue::TimeStamp(t) + CelValue::Duration(d);
    let mid = match &sum {
        CelValue::TimeStamp(m) => *m,
        _ => {
            witness!(true, "intermediate not representable");
            core::mem::forget(sum);
            return;
        }
    };
    core::mem::forget(sum);
    let back = CelValue::TimeStamp(mid) - CelValue::Duration(d);
    witness!(true, "round trip");
    assert!(matches!(&back, CelValue::TimeStamp(g) if *g == t), "(t + d) - d == t");
    core::mem::forget(back);
}

/// (t1 - t2) + t2 == t1, both in windows
pub fn ts_diff_roundtrip(base1: i64, base2: i64) {
    let (s1, n1) = win_ts(base1);
    let (s2, n2) = win_ts(base2);
    let t1 = DateTime::from_timestamp(s1, n1).unwrap();
    let t2 = DateTime::from_timestamp(s2, n2).unwrap();
    let diff = CelValue::TimeStamp(t1) - CelValue::TimeStamp(t2);
    let d = match &diff {
        CelValue::Duration(d) => *d,
        _ => {
            core::mem::forget(diff);
            return;
        }
    };
    core::mem::forget(diff);
    let back = CelValue::Duration(d) + CelValue::TimeStamp(t2);
    witness!(true, "round trip");
    assert!(matches!(&back, CelValue::TimeStamp(g) if *g == t1), "(t1 - t2) + t2 == t1");
    core::mem::forget(back);
}

/// duration accessors: total whole hours/minutes/seconds (toward zero) and the sub-second
/// millisecond part, characterised by bracketing (no divider in the oracle)
pub fn dur_accessors() {
    let (s, n) = sym_dur();
    let d = Duration::new(s, n).unwrap();
    // typed overloads (hook): the accessors' dispatcher takes two argument slots (receiver
    // + optional zone), and a heap Vec of two CelValues does not finish
    let h = CelValue::Int(vf::inner::get_hours::dur(d));
    let m = CelValue::Int(vf::inner::get_minutes::dur(d));
    let sec = CelValue::Int(vf::inner::get_seconds::dur(d));
    let ms = CelValue::Int(vf::inner::get_milliseconds::dur(d));
    // The duration is s seconds + n nanoseconds (0 <= n < 1e9, s may be negative).
    // Whole seconds toward zero and the signed sub-second nanoseconds:
    let negative = s < 0;
    let (ws, sub) = if negative && n > 0 { (s + 1, n as i64 - 1_000_000_000) } else { (s, n as i64) };
    witness!(negative && n != 0, "negative duration with a fraction");
    witness!(s > 0, "positive duration");
    let whole = |v: &CelValue, unit: i64, what: &'static str| match v {
        CelValue::Int(q) => {
            // q = trunc(ws / unit)  <=>  ws - q*unit has ws's sign and magnitude below unit
            // (|q| <= |ws| / unit, so q*unit cannot overflow when the answer is right; use
            // i128 only for the product's headroom, the multiplier is a small constant)
            let rem = ws as i128 - (*q as i128) * unit as i128;
            if ws >= 0 {
                assert!(rem >= 0 && rem < unit as i128, "{}", what);
            } else {
                assert!(rem <= 0 && rem > -(unit as i128), "{}", what);
            }
        }
        _ => assert!(false, "duration accessor returns an int"),
    };
    whole(&h, 3600, "getHours is the total whole hours");
    whole(&m, 60, "getMinutes is the total whole minutes");
    match &sec {
        CelValue::Int(q) => assert!(*q == ws, "getSeconds is the total whole seconds"),
        _ => assert!(false, "duration accessor returns an int"),
    }
    match &ms {
        CelValue::Int(ms) => {
            let rem = sub - *ms * 1_000_000;
            assert!(*ms > -1000 && *ms < 1000, "sub-second milliseconds are below one second");
            if sub >= 0 {
                assert!(rem >= 0 && rem < 1_000_000, "getMilliseconds is the sub-second millisecond part");
            } else {
                assert!(rem <= 0 && rem > -1_000_000, "getMilliseconds is the sub-second millisecond part");
            }
        }
        _ => assert!(false, "duration accessor returns an int"),
    }
    core::mem::forget((h, m, sec, ms));
}

/// ordering of durations is the order of their lengths
pub fn dur_order() {
    let (s1, n1) = sym_dur();
    let (s2, n2) = sym_dur();
    let a = CelValue::Duration(Duration::new(s1, n1).unwrap());
    let b = CelValue::Duration(Duration::new(s2, n2).unwrap());
    let r = a.lt(b);
    // s seconds + n nanoseconds with 0 <= n < 1e9: lexicographic order is the order of lengths
    let want = (s1, n1) < (s2, n2);
    witness!(want, "earlier");
    assert!(matches!(r, CelValue::Bool(x) if x == want), "duration order is the order of the lengths");
    core::mem::forget(r);
}

/// chronological order of timestamps from two windows (all six relations)
pub fn ts_order(base1: i64, base2: i64) {
    let (s1, n1) = win_ts(base1);
    let (s2, n2) = win_ts(base2);
    let mk = |s, n| CelValue::TimeStamp(DateTime::from_timestamp(s, n).unwrap());
    let lt = mk(s1, n1).lt(mk(s2, n2));
    let le = mk(s1, n1).le(mk(s2, n2));
    let gt = mk(s1, n1).gt(mk(s2, n2));
    let ge = mk(s1, n1).ge(mk(s2, n2));
    let (x, y) = (mk(s1, n1), mk(s2, n2));
    let eq = rscel::CelValueDyn::eq(&x, &y);
    let o = (s1, n1).cmp(&(s2, n2));
    use core::cmp::Ordering::*;
    witness!(o == Less, "earlier");
    witness!(o == Greater, "later");
    assert!(matches!(lt, CelValue::Bool(b) if b == (o == Less)), "timestamp < is chronological");
    assert!(matches!(le, CelValue::Bool(b) if b == (o != Greater)), "timestamp <= is chronological");
    assert!(matches!(gt, CelValue::Bool(b) if b == (o == Greater)), "timestamp > is chronological");
    assert!(matches!(ge, CelValue::Bool(b) if b == (o != Less)), "timestamp >= is chronological");
    assert!(matches!(eq, CelValue::Bool(b) if b == (o == Equal)), "timestamp == is identity of instants");
    core::mem::forget((lt, le, gt, ge, eq, x, y));
}

// ---------------------------------------------------------------------------------------
// Calendar accessors in UTC (typed overloads through the hook), against an independent
// civil-from-days computation (Howard Hinnant's algorithm, written here from its published
// description - not chrono's code).

fn floor_div(a: i64, b: i64) -> i64 {
    let q = a / b;
    if (a % b != 0) && ((a < 0) != (b < 0)) {
        q - 1
    } else {
        q
    }
}

fn days_from_civil(y: i64, m: i64, d: i64) -> i64 {
    let y = if m <= 2 { y - 1 } else { y };
    let era = floor_div(y, 400);
    let yoe = y - era * 400;
    let mp = if m > 2 { m - 3 } else { m + 9 };
    let doy = (153 * mp + 2) / 5 + d - 1;
    let doe = yoe * 365 + yoe / 4 - yoe / 100 + doy;
    era * 146097 + doe - 719468
}

/// (year, month 1..12, day 1..31) of the day number `z` (days since 1970-01-01)
fn civil_from_days(z: i64) -> (i64, i64, i64) {
    let z = z + 719468;
    let era = floor_div(z, 146097);
    let doe = z - era * 146097;
    let yoe = (doe - doe / 1460 + doe / 36524 - doe / 146096) / 365;
    let y = yoe + era * 400;
    let doy = doe - (365 * yoe + yoe / 4 - yoe / 100);
    let mp = (5 * doy + 2) / 153;
    let d = doy - (153 * mp + 2) / 5 + 1;
    let m = if mp < 10 { mp + 3 } else { mp - 9 };
    (if m <= 2 { y + 1 } else { y }, m, d)
}

/// every UTC accessor of an instant in the window `base +- WIN`
pub fn calendar_utc(base: i64) {
    let (s, n) = win_ts(base);
    let t = DateTime::from_timestamp(s, n).unwrap();
    let days = floor_div(s, 86400);
    let sod = s - days * 86400; // second of day, 0..86400
    let (y, m, d) = civil_from_days(days);
    let doy0 = days - days_from_civil(y, 1, 1); // zero-based day of year
    let dow = {
        let w = (days + 4) % 7; // 1970-01-01 was a Thursday (4 with Sunday = 0)
        if w < 0 {
            w + 7
        } else {
            w
        }
    };
    use vf::inner as i;
    witness!(m == 2 && d == 29, "leap day");
    witness!(sod >= 86399, "last second of a day");
    assert!(i::get_full_year::utc(t) == y, "getFullYear is the civil year in UTC");
    assert!(i::get_month::utc(t) == m - 1, "getMonth is zero-based");
    assert!(i::get_date::utc(t) == d, "getDate is the one-based day of the month");
    assert!(i::get_day_of_month::utc(t) == d - 1, "getDayOfMonth is zero-based");
    assert!(i::get_day_of_year::utc(t) == doy0, "getDayOfYear is zero-based");
    assert!(i::get_day_of_week::utc(t) == dow, "getDayOfWeek is zero-based with Sunday = 0");
    assert!(i::get_hours::utc(t) == sod / 3600, "getHours is the hour of the day in UTC");
    assert!(i::get_minutes::utc(t) == (sod % 3600) / 60, "getMinutes is the minute of the hour");
    assert!(i::get_seconds::utc(t) == sod % 60, "getSeconds is the second of the minute");
    assert!(i::get_milliseconds::utc(t) == (n / 1_000_000) as i64, "getMilliseconds is the millisecond of the second");
}
