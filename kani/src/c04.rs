//! C04 - equality and ordering laws.
use crate::kinds::*;
use crate::spec::{self, OrdExp};
use crate::sym::assume;
use crate::witness;
use core::cmp::Ordering;
use rscel::CelValueDyn;

fn has_nan(v: V) -> bool {
    matches!(v, V::F(f) if f.is_nan())
}

struct Rel {
    lt: R,
    le: R,
    gt: R,
    ge: R,
    eq: R,
    ne: R,
}

fn rels(a: V, b: V) -> Rel {
    let (x, y) = (a.cel(), b.cel());
    let eq = CelValueDyn::eq(&x, &y);
    let ne = x.neq(y);
    let lt = a.cel().lt(b.cel());
    let le = a.cel().le(b.cel());
    let gt = a.cel().gt(b.cel());
    let ge = a.cel().ge(b.cel());
    let r = Rel {
        lt: classify(&lt),
        le: classify(&le),
        gt: classify(&gt),
        ge: classify(&ge),
        eq: classify(&eq),
        ne: classify(&ne),
    };
    core::mem::forget((eq, ne, lt, le, gt, ge));
    r
}

fn is_b(r: R, v: bool) -> bool {
    matches!(r, R::B(x) if x == v)
}

/// Pair laws on (K1, K2): complement, symmetry, trichotomy, unions, unrelated kinds fail.
pub fn pair<K1: Kind, K2: Kind>() {
    let a = K1::sym();
    let b = K2::sym();
    assume(!has_nan(a) && !has_nan(b));
    let r = rels(a, b);
    let s = rels(b, a);

    // == and != are complementary (or both fail)
    match (r.eq, r.ne) {
        (R::B(e), R::B(n)) => assert!(e != n, "== and != must be complementary"),
        (R::Err, R::Err) => {}
        _ => assert!(false, "== and != must both be bools or both fail"),
    }
    // == is symmetric
    match (r.eq, s.eq) {
        (R::B(e1), R::B(e2)) => assert!(e1 == e2, "== must be symmetric"),
        (R::Err, R::Err) => {}
        _ => assert!(false, "== must be symmetric (value vs failure)"),
    }
    if let Some(e) = spec::equal(a, b) {
        assert!(is_b(r.eq, e), "== must hold exactly when both denote the same value");
    }

    match spec::order(a, b) {
        OrdExp::Is(o) => {
            witness!(o == Ordering::Less, "less");
            witness!(o == Ordering::Greater, "greater");
            witness!(o == Ordering::Equal, "equal");
            assert!(is_b(r.lt, o == Ordering::Less), "a<b must hold exactly when a is below b");
            assert!(is_b(r.gt, o == Ordering::Greater), "a>b must hold exactly when a is above b");
            assert!(is_b(r.le, o != Ordering::Greater), "<= is the union of < and ==");
            assert!(is_b(r.ge, o != Ordering::Less), ">= is the union of > and ==");
            assert!(is_b(r.eq, o == Ordering::Equal), "a==b exactly when neither a<b nor a>b");
            // the mirrored pair describes the same order
            assert!(is_b(s.lt, o == Ordering::Greater), "b<a must mirror a>b");
            assert!(is_b(s.gt, o == Ordering::Less), "b>a must mirror a<b");
        }
        OrdExp::Unordered => {}
        OrdExp::Error => {
            witness!(true, "unrelated kinds");
            assert!(matches!(r.lt, R::Err), "< between unrelated types must be an error");
            assert!(matches!(r.le, R::Err), "<= between unrelated types must be an error");
            assert!(matches!(r.gt, R::Err), "> between unrelated types must be an error");
            assert!(matches!(r.ge, R::Err), ">= between unrelated types must be an error");
        }
        OrdExp::Unspecified => {
            witness!(true, "statement silent: consistency only");
            if let (R::B(lt), R::B(le), R::B(gt), R::B(ge), R::B(eq)) = (r.lt, r.le, r.gt, r.ge, r.eq) {
                assert!((lt as u8) + (gt as u8) + (eq as u8) == 1, "exactly one of < == >");
                assert!(le == (lt || eq) && ge == (gt || eq), "<= and >= are the unions");
            }
        }
    }
}

/// reflexivity of == (no NaN)
pub fn refl<K: Kind>() {
    let a = K::sym();
    assume(!has_nan(a));
    let (x, y) = (a.cel(), a.cel());
    let e = CelValueDyn::eq(&x, &y);
    witness!(true, "reflexive reached");
    match a {
        V::E => assert!(e.is_err(), "a failure compared with itself fails"),
        _ => assert!(e.is_true(), "== must be reflexive"),
    }
    core::mem::forget((x, y, e));
}

fn lt(a: V, b: V) -> bool {
    let r = a.cel().lt(b.cel());
    let v = r.is_true();
    core::mem::forget(r);
    v
}

fn eq(a: V, b: V) -> bool {
    let (x, y) = (a.cel(), b.cel());
    let r = CelValueDyn::eq(&x, &y);
    let v = r.is_true();
    core::mem::forget((x, y, r));
    v
}

/// transitivity / asymmetry on a triple of comparable kinds
pub fn triple<K1: Kind, K2: Kind, K3: Kind>() {
    let a = K1::sym();
    let b = K2::sym();
    let c = K3::sym();
    assume(!has_nan(a) && !has_nan(b) && !has_nan(c));
    let (ab, bc, ac) = (lt(a, b), lt(b, c), lt(a, c));
    witness!(ab && bc, "chain a<b<c");
    if ab && bc {
        assert!(ac, "< must be transitive");
    }
    if ab {
        assert!(!lt(b, a), "< must be asymmetric");
    }
    let (eab, ebc, eac) = (eq(a, b), eq(b, c), eq(a, c));
    witness!(eab && ebc, "chain a==b==c");
    if eab && ebc {
        assert!(eac, "== must be transitive");
    }
    // < is compatible with ==
    if eab && bc {
        assert!(ac, "a==b and b<c imply a<c");
    }
    if ab && ebc {
        assert!(ac, "a<b and b==c imply a<c");
    }
}
