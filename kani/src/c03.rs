//! C03 - numeric operators are exact or fail.
use crate::kinds::*;
use crate::spec::{self, Exp, Op};
use crate::sym::assume;
use crate::witness;
use rscel::CelValue;

pub fn apply(op: Op, a: CelValue, b: CelValue) -> CelValue {
    match op {
        Op::Add => a + b,
        Op::Sub => a - b,
        Op::Mul => a * b,
        Op::Div => a / b,
        Op::Rem => a % b,
    }
}

/// Compare a real result with the oracle's expectation.
pub fn check(r: &CelValue, e: Exp) {
    let got = classify(r);
    match e {
        Exp::I(x) => {
            witness!(true, "expect int value");
            assert!(matches!(got, R::I(y) if y == x), "exact int result expected");
        }
        Exp::U(x) => {
            witness!(true, "expect uint value");
            assert!(matches!(got, R::U(y) if y == x), "exact uint result expected");
        }
        Exp::F(x) => {
            witness!(true, "expect double value");
            assert!(matches!(got, R::F(y) if same_f64(x, y)), "IEEE-754 double result expected");
        }
        Exp::Err => {
            witness!(true, "expect error");
            assert!(matches!(got, R::Err), "error value expected (not representable / invalid operands)");
        }
        Exp::IOrErr(x) => {
            witness!(true, "expect int value or error");
            assert!(
                matches!(got, R::Err) || matches!(got, R::I(y) if y == x),
                "exact int result or error expected, never a different value"
            );
        }
        Exp::Any => {
            witness!(true, "statement silent: totality only");
        }
    }
}

/// op on (K1, K2), all payloads.
pub fn binop<K1: Kind, K2: Kind>(op: Op) {
    let a = K1::sym();
    let b = K2::sym();
    let r = apply(op, a.cel(), b.cel());
    check(&r, spec::arith(op, a, b));
    core::mem::forget(r);
}

fn small_f(v: V) -> bool {
    match v {
        // doubles with at most 12 significant bits and a small exponent: the multiplier and
        // divider circuits collapse, every special value (0, -0, inf, NaN, subnormal min) kept
        V::F(f) => {
            let bits = f.to_bits();
            let mant = bits & 0x000f_ffff_ffff_ffff;
            let exp = (bits >> 52) & 0x7ff;
            (mant & 0x0000_00ff_ffff_ffff) == 0 && (exp == 0 || exp == 0x7ff || (exp >= 1023 - 40 && exp <= 1023 + 40))
        }
        _ => true,
    }
}

/// op on (K1, K2) with integers below 2^bits in magnitude (plus the boundary set) and doubles
/// of short mantissa: the quick stand-in for the full-width query of the thorough tier
pub fn binop_bounded<K1: Kind, K2: Kind>(op: Op, bits: u32) {
    let a = K1::sym();
    let b = K2::sym();
    assume(small_or_boundary(a, bits) && small_or_boundary(b, bits));
    assume(small_f(a) && small_f(b));
    let r = apply(op, a.cel(), b.cel());
    check(&r, spec::arith(op, a, b));
    core::mem::forget(r);
}

/// `/` and `%` full width: error *predicate* only (no divider equivalence in the query).
pub fn divrem_pred<K1: Kind, K2: Kind>(op: Op) {
    let a = K1::sym();
    let b = K2::sym();
    let r = apply(op, a.cel(), b.cel());
    let got = classify(&r);
    let (zero_div, min_neg1, lossy, float) = match (a, b) {
        (V::I(x), V::I(y)) => (y == 0, x == i64::MIN && y == -1, false, false),
        (V::U(_), V::U(y)) => (y == 0, false, false, false),
        (V::I(x), V::U(y)) => (y == 0, false, y > i64::MAX as u64 || (x == i64::MIN && false), false),
        (V::U(x), V::I(y)) => (y == 0, false, x > i64::MAX as u64, false),
        (V::I(x), V::B(y)) => (!y, false, x == i64::MIN && false, false),
        (V::B(_), V::I(y)) => (y == 0, false, false, false),
        (V::U(_), V::B(y)) => (!y, false, false, false),
        (V::B(_), V::U(y)) => (y == 0, false, false, false),
        // bool with bool: the statement does not settle it (see spec::arith) - totality only
        (V::B(_), V::B(_)) => {
            witness!(true, "statement silent: totality only");
            core::mem::forget(r);
            return;
        }
        _ => (false, false, false, true),
    };
    if float {
        witness!(true, "double operands");
        if op == Op::Div {
            assert!(matches!(got, R::F(_)), "double division is IEEE-754: always a double");
        }
    } else if zero_div {
        witness!(true, "zero divisor");
        assert!(matches!(got, R::Err), "division or remainder by zero is an error");
    } else if min_neg1 {
        witness!(true, "MIN / -1");
        if op == Op::Div {
            assert!(matches!(got, R::Err), "i64::MIN / -1 is not representable: error");
        } else {
            assert!(matches!(got, R::Err) || matches!(got, R::I(0)), "i64::MIN % -1 is 0 (or the overflow is reported)");
        }
    } else if !lossy {
        witness!(true, "defined quotient");
        let int_result = !matches!((a, b), (V::U(_), V::U(_)) | (V::U(_), V::B(_)) | (V::B(_), V::U(_)));
        if int_result {
            assert!(matches!(got, R::I(_)), "defined int quotient/remainder must be an int value");
        } else {
            assert!(matches!(got, R::U(_)), "defined uint quotient/remainder must be a uint value");
        }
    } else {
        witness!(true, "uint operand above int range");
    }
    core::mem::forget(r);
}

/// |x| < 2^bits, or one of the boundary values {0, +-1, +-2, +-2^31, 2^31+-1, i64::MIN(+1),
/// i64::MAX(-1)} resp. {0, 1, 2, 2^31(+1), i64::MAX, 2^63(+1), u64::MAX}. Written without a
/// loop so that no unwinding is needed.
fn small_or_boundary(v: V, bits: u32) -> bool {
    match v {
        V::I(x) => {
            let lim = 1i64 << bits;
            (x > -lim && x < lim)
                || x == 1 << 31
                || x == -(1 << 31)
                || x == (1 << 31) + 1
                || x == (1 << 31) - 1
                || x == i64::MIN
                || x == i64::MIN + 1
                || x == i64::MAX
                || x == i64::MAX - 1
        }
        V::U(x) => {
            x < (1u64 << bits)
                || x == 1 << 31
                || x == (1 << 31) + 1
                || x == i64::MAX as u64
                || x == 1 << 63
                || x == (1 << 63) + 1
                || x == u64::MAX
        }
        _ => true,
    }
}

/// `/` and `%` value exactness on |a|,|b| < 2^bits plus the boundary set.
pub fn divrem_val<K1: Kind, K2: Kind>(op: Op, bits: u32) {
    let a = K1::sym();
    let b = K2::sym();
    assume(small_or_boundary(a, bits));
    assume(small_or_boundary(b, bits));
    let r = apply(op, a.cel(), b.cel());
    check(&r, spec::arith(op, a, b));
    core::mem::forget(r);
}

pub fn neg<K: Kind>() {
    let a = K::sym();
    let r = -a.cel();
    check(&r, spec::neg(a));
    core::mem::forget(r);
}

/// all five operators on a pairing that involves a non-number
pub fn nonnum<K1: Kind, K2: Kind>() {
    let a = K1::sym();
    let b = K2::sym();
    for op in [Op::Add, Op::Sub, Op::Mul, Op::Div, Op::Rem] {
        let r = apply(op, a.cel(), b.cel());
        check(&r, spec::arith(op, a, b));
        core::mem::forget(r);
    }
}
