/// Declares one harness: a `#[kani::proof]` under Kani, a plain function natively.
#[macro_export]
macro_rules! harness {
    ($name:ident, $unwind:literal, $body:block) => {
        #[cfg_attr(kani, kani::proof)]
        #[cfg_attr(kani, kani::unwind($unwind))]
        #[cfg_attr(kani, kani::stub(alloc::fmt::format, $crate::stubs::format_stub))]
        pub fn $name() {
            $body;
            // reaching the end of the body shows the assumptions are jointly satisfiable
            $crate::witness!(true, "harness body completed");
        }
    };
}

/// `assert!` as the harness bodies use it: the same assertion, preceded under Kani by a
/// reachability query for its negation. On a tree where the assertion holds that query is
/// unsatisfiable and changes nothing; where it fails, Kani's concrete playback prints an input for
/// it (Kani 0.68 does not always print one for the failed assertion itself), which the driver
/// then replays natively.
macro_rules! assert {
    ($c:expr, $($m:tt)+) => {{
        let __holds: bool = $c;
        #[cfg(kani)]
        kani::cover!(!__holds, "violation witness");
        ::core::assert!(__holds, $($m)+);
    }};
    ($c:expr) => {{
        let __holds: bool = $c;
        #[cfg(kani)]
        kani::cover!(!__holds, "violation witness");
        ::core::assert!(__holds);
    }};
}
