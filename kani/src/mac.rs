/// Declares one harness: a `#[kani::proof]` under Kani, a plain function natively.
#[macro_export]
macro_rules! harness {
    ($name:ident, $unwind:literal, $body:block) => {
        #[cfg_attr(kani, kani::proof)]
        #[cfg_attr(kani, kani::unwind($unwind))]
        #[cfg_attr(kani, kani::stub(alloc::fmt::format, $crate::stubs::format_stub))]
        pub fn $name() {
            $body;
            // reaching the end of the body shows the assumptions are jointly satisfiable
            $crate::witness!(true, "harness body completed");
        }
    };
}
