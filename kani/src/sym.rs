//! Source of symbolic values. Under Kani: `kani::any()`. Natively: the next byte vector of a
//! recorded counterexample (same order, same little-endian encoding as Kani's concrete
//! playback), so a solver assignment can be replayed against the real build.

#[cfg(not(kani))]
use std::cell::RefCell;

#[cfg(not(kani))]
thread_local! {
    static QUEUE: RefCell<Vec<Vec<u8>>> = RefCell::new(Vec::new());
    static POS: RefCell<usize> = RefCell::new(0);
}

/// Payload used to signal "this input violates a harness assumption" from a native replay.
pub const ASSUME_FAILED: &str = "VERIF-ASSUME-FAILED";
pub const OUT_OF_VALUES: &str = "VERIF-OUT-OF-VALUES";

#[cfg(not(kani))]
pub fn load(values: Vec<Vec<u8>>) {
    QUEUE.with(|q| *q.borrow_mut() = values);
    POS.with(|p| *p.borrow_mut() = 0);
}

#[cfg(not(kani))]
fn next_bytes(n: usize) -> Vec<u8> {
    let i = POS.with(|p| {
        let mut p = p.borrow_mut();
        let i = *p;
        *p += 1;
        i
    });
    QUEUE.with(|q| {
        let q = q.borrow();
        if i >= q.len() {
            std::panic::panic_any(OUT_OF_VALUES);
        }
        let mut v = q[i].clone();
        v.resize(n, 0);
        v
    })
}

pub trait Sym: Sized {
    fn sym() -> Self;
}

macro_rules! sym_int {
    ($($t:ty),*) => {$(
        impl Sym for $t {
            #[cfg(kani)]
            #[inline(always)]
            fn sym() -> Self { kani::any() }
            #[cfg(not(kani))]
            fn sym() -> Self {
                let b = next_bytes(std::mem::size_of::<$t>());
                <$t>::from_le_bytes(b.try_into().unwrap())
            }
        }
    )*};
}
sym_int!(i8, u8, i16, u16, i32, u32, i64, u64, isize, usize);

impl Sym for f64 {
    #[cfg(kani)]
    #[inline(always)]
    fn sym() -> Self {
        kani::any()
    }
    #[cfg(not(kani))]
    fn sym() -> Self {
        let b = next_bytes(8);
        f64::from_le_bytes(b.try_into().unwrap())
    }
}

impl Sym for bool {
    #[cfg(kani)]
    #[inline(always)]
    fn sym() -> Self {
        kani::any()
    }
    #[cfg(not(kani))]
    fn sym() -> Self {
        next_bytes(1)[0] != 0
    }
}

#[inline(always)]
pub fn any<T: Sym>() -> T {
    T::sym()
}

#[inline(always)]
pub fn assume(c: bool) {
    #[cfg(kani)]
    kani::assume(c);
    #[cfg(not(kani))]
    if !c {
        std::panic::panic_any(ASSUME_FAILED);
    }
}

/// Reachability witness: under Kani a `cover!`; natively nothing.
#[macro_export]
macro_rules! witness {
    ($c:expr, $m:literal) => {{
        #[cfg(kani)]
        kani::cover!($c, $m);
        #[cfg(not(kani))]
        {
            let _ = $c;
        }
    }};
}
