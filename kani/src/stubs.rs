//! Stubs used by the harnesses. Each one is part of every claim (DESIGN.md section 6).

/// `alloc::fmt::format` -> empty string. Error *messages* are outside every property;
/// without this stub each `format!` in an error arm costs minutes of symbolic execution.
pub fn format_stub(_args: core::fmt::Arguments<'_>) -> String {
    String::new()
}
