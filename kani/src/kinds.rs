//! Value kinds. A *kind* is concrete per harness (a symbolic enum discriminant makes the
//! recursive clone/drop glue of `CelValue` intractable); the *payload* is fully symbolic.
//!
//! `V` is the specification-level view of an operand: plain `Copy` data the oracles in
//! `spec.rs` compute on. `V::cel()` builds the real `rscel::CelValue`.

use crate::sym::{any, assume};
use chrono::{DateTime, Duration};
use rscel::{CelError, CelValue};

/// Short byte string: `len <= 3`, bytes beyond `len` are ignored.
#[derive(Clone, Copy)]
pub struct Short {
    pub len: u8,
    pub b: [u8; 3],
}

impl Short {
    pub fn bytes(&self) -> Vec<u8> {
        // one allocation of fixed capacity with a symbolic length. (Returning a different
        // Vec per length makes the buffer pointer a phi of several objects, and CBMC's
        // symbolic-size memcpy over such a pointer yields spurious bytes in `clone()`.)
        let mut v = vec![self.b[0], self.b[1], self.b[2]];
        v.truncate(self.len as usize);
        v
    }

    pub fn get(&self, i: usize) -> u8 {
        self.b[i]
    }

    /// lexicographic byte order (what Rust's `str`/`[u8]` ordering is)
    pub fn cmp(&self, o: &Short) -> core::cmp::Ordering {
        use core::cmp::Ordering::*;
        let mut i = 0usize;
        while i < 3 {
            let a_has = (i as u8) < self.len;
            let b_has = (i as u8) < o.len;
            if !a_has && !b_has {
                return Equal;
            }
            if !a_has {
                return Less;
            }
            if !b_has {
                return Greater;
            }
            if self.b[i] < o.b[i] {
                return Less;
            }
            if self.b[i] > o.b[i] {
                return Greater;
            }
            i += 1;
        }
        Equal
    }
}

#[derive(Clone, Copy)]
pub enum V {
    I(i64),
    U(u64),
    F(f64),
    B(bool),
    N,
    /// string of `len` ASCII bytes (or valid UTF-8 where the harness says so)
    S(Short),
    Y(Short),
    /// chrono::Duration::new(secs, nanos), valid
    D(i64, u32),
    /// DateTime::from_timestamp(secs, nanos), representable
    T(i64, u32),
    E,
    Ty,
}

pub const MAX_STR: u8 = 2;

impl V {
    pub fn cel(self) -> CelValue {
        match self {
            V::I(i) => CelValue::Int(i),
            V::U(u) => CelValue::UInt(u),
            V::F(f) => CelValue::Float(f),
            V::B(b) => CelValue::Bool(b),
            V::N => CelValue::Null,
            V::S(s) => CelValue::String(unsafe { String::from_utf8_unchecked(s.bytes()) }),
            V::Y(s) => CelValue::from_bytes(s.bytes()),
            V::D(s, n) => CelValue::Duration(Duration::new(s, n).unwrap()),
            V::T(s, n) => CelValue::TimeStamp(DateTime::from_timestamp(s, n).unwrap()),
            V::E => CelValue::Err(CelError::DivideByZero),
            V::Ty => CelValue::Type("int".to_string()),
        }
    }

    pub fn is_num(self) -> bool {
        matches!(self, V::I(_) | V::U(_) | V::F(_))
    }
}

pub trait Kind {
    const NAME: &'static str;
    fn sym() -> V;
}

fn short(max: u8, ascii: bool) -> Short {
    let len: u8 = any();
    assume(len <= max);
    let b: [u8; 3] = [any(), any(), any()];
    if ascii {
        assume(b[0] < 0x80 && b[1] < 0x80 && b[2] < 0x80);
    }
    Short { len, b }
}

pub struct KI;
pub struct KU;
pub struct KF;
pub struct KB;
pub struct KN;
pub struct KS;
pub struct KY;
pub struct KD;
pub struct KT;
pub struct KE;
pub struct KTy;

impl Kind for KI {
    const NAME: &'static str = "int";
    fn sym() -> V {
        V::I(any())
    }
}
impl Kind for KU {
    const NAME: &'static str = "uint";
    fn sym() -> V {
        V::U(any())
    }
}
impl Kind for KF {
    const NAME: &'static str = "double";
    fn sym() -> V {
        V::F(any())
    }
}
impl Kind for KB {
    const NAME: &'static str = "bool";
    fn sym() -> V {
        V::B(any())
    }
}
impl Kind for KN {
    const NAME: &'static str = "null";
    fn sym() -> V {
        V::N
    }
}
impl Kind for KS {
    const NAME: &'static str = "string";
    fn sym() -> V {
        V::S(short(MAX_STR, true))
    }
}
impl Kind for KY {
    const NAME: &'static str = "bytes";
    fn sym() -> V {
        V::Y(short(MAX_STR, false))
    }
}
impl Kind for KD {
    const NAME: &'static str = "duration";
    fn sym() -> V {
        let s: i64 = any();
        let n: u32 = any();
        assume(Duration::new(s, n).is_some());
        V::D(s, n)
    }
}
/// timestamps: window of +-2^17 seconds around the epoch, arbitrary nanoseconds
pub const T_WIN: i64 = 1 << 17;
impl Kind for KT {
    const NAME: &'static str = "timestamp";
    fn sym() -> V {
        let s: i64 = any();
        let n: u32 = any();
        assume(s > -T_WIN && s < T_WIN && n < 1_000_000_000);
        V::T(s, n)
    }
}
impl Kind for KE {
    const NAME: &'static str = "error";
    fn sym() -> V {
        V::E
    }
}
impl Kind for KTy {
    const NAME: &'static str = "type";
    fn sym() -> V {
        V::Ty
    }
}

/// What a result looks like, without touching `PartialEq` on `CelValue` (which would drag
/// the recursive structural comparison into every query).
#[derive(Clone, Copy)]
pub enum R {
    I(i64),
    U(u64),
    F(f64),
    B(bool),
    N,
    Err,
    /// some other non-error value (string, bytes, list, time, ...)
    Other,
}

pub fn classify(v: &CelValue) -> R {
    match v {
        CelValue::Int(i) => R::I(*i),
        CelValue::UInt(u) => R::U(*u),
        CelValue::Float(f) => R::F(*f),
        CelValue::Bool(b) => R::B(*b),
        CelValue::Null => R::N,
        CelValue::Err(_) => R::Err,
        _ => R::Other,
    }
}

pub fn same_f64(a: f64, b: f64) -> bool {
    (a.is_nan() && b.is_nan()) || a.to_bits() == b.to_bits()
}
