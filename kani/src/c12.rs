//! C12 - "values bound from JSON equal the same values bound directly", scalar part.
use crate::kinds::*;
use crate::sym::any;
use crate::witness;
use rscel::serde_json::{Number, Value};
use rscel::CelValue;

fn conv(v: Value, by_ref: bool) -> CelValue {
    if by_ref {
        let r = CelValue::from(&v);
        core::mem::forget(v);
        r
    } else {
        CelValue::from(v)
    }
}

pub fn json_i64(by_ref: bool) {
    let i: i64 = any();
    let r = conv(Value::Number(Number::from(i)), by_ref);
    witness!(i < 0, "negative");
    assert!(matches!(r, CelValue::Int(x) if x == i), "a JSON integer must bind as the same int");
    core::mem::forget(r);
}

pub fn json_u64(by_ref: bool) {
    let u: u64 = any();
    let r = conv(Value::Number(Number::from(u)), by_ref);
    witness!(u > i64::MAX as u64, "above int range");
    if u <= i64::MAX as u64 {
        assert!(matches!(r, CelValue::Int(x) if x as u64 == u && x >= 0), "a JSON integer in int range binds as int");
    } else {
        assert!(matches!(r, CelValue::UInt(x) if x == u), "a JSON integer above the int range binds as the same uint");
    }
    core::mem::forget(r);
}

pub fn json_f64(by_ref: bool) {
    let f: f64 = any();
    match Number::from_f64(f) {
        Some(n) => {
            witness!(true, "finite double");
            let r = conv(Value::Number(n), by_ref);
            assert!(matches!(r, CelValue::Float(x) if same_f64(x, f)), "a JSON double must bind as the same double");
            core::mem::forget(r);
        }
        None => {
            witness!(true, "non-finite is not JSON");
        }
    }
}

pub fn json_misc(by_ref: bool) {
    let b: bool = any();
    let r = conv(Value::Bool(b), by_ref);
    assert!(matches!(r, CelValue::Bool(x) if x == b), "JSON bool binds as the same bool");
    let n = conv(Value::Null, by_ref);
    witness!(true, "reached");
    assert!(matches!(n, CelValue::Null), "JSON null binds as null");
    core::mem::forget((r, n));
}

pub fn json_str(by_ref: bool) {
    let a = KS::sym();
    let s = match a {
        V::S(s) => s,
        _ => unreachable!(),
    };
    let text = unsafe { String::from_utf8_unchecked(s.bytes()) };
    let r = conv(Value::String(text), by_ref);
    witness!(s.len == MAX_STR, "longest");
    match &r {
        CelValue::String(g) => {
            let g = g.as_bytes();
            assert!(g.len() == s.len as usize, "JSON string binds with the same length");
            let mut i = 0usize;
            while i < MAX_STR as usize {
                if i < g.len() {
                    assert!(g[i] == s.b[i], "JSON string binds with the same bytes");
                }
                i += 1;
            }
        }
        _ => assert!(false, "JSON string must bind as a string"),
    }
    core::mem::forget(r);
}
